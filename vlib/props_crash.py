"""Crash-point enumeration checks (C07, C08, C09) and power-loss reconstruction (C10)."""
import json
import os
import random
import shutil
import time

from . import common as C
from . import engine as E
from . import gen as G
from . import props_engine as PE

CRASH_CFGS = [
    {"backend": "fd", "mode": "strict", "pe": 1, "fsync": "ms200"},
    {"backend": "mmap", "mode": "strict", "pe": 1, "fsync": "ms200"},
    {"backend": "fd", "mode": "alo", "pe": 2, "fsync": "none"},
    {"backend": "fd", "mode": "strict", "pe": 1, "fsync": "sync_each"},
    {"backend": "fd", "mode": "alo", "pe": 3, "fsync": "ms200"},
    {"backend": "mmap", "mode": "alo", "pe": 1, "fsync": "sync_each"},
]


def crash_corpus(n, seed):
    r = random.Random("crash/%d" % seed)
    out = []
    for i in range(n):
        cfg = dict(CRASH_CFGS[i % len(CRASH_CFGS)])
        b = G.gen_behaviour(r, "crashw", "tiny", "cw%d" % i, cfg, length=r.randint(5, 11), safe_first=True)
        b["cfg"]["proj"] = False
        out.append(b)
    return out


def run_crash(behs, max_points, tag):
    binp = C.build_engine("tiny")
    root = C.ensure_dir(os.path.join(C.BUILD, "runs", "%s-%d" % (tag, os.getpid())))

    def job(ix):
        d = C.ensure_dir(os.path.join(root, "j%d" % ix))
        inp, out = os.path.join(d, "in.ndjson"), os.path.join(d, "out.ndjson")
        with open(inp, "w") as f:
            f.write(json.dumps(behs[ix]) + "\n")
        rc, o = C.sh([binp, "crash", "--in", inp, "--out", out, "--dir", os.path.join(d, "data"),
                      "--max-points", str(max_points), "--seed", str(C.seed())], timeout=3000, env={"WALRUS_QUIET": "1"})
        groups, cur = {}, None
        if os.path.exists(out):
            with open(out) as f:
                for line in f:
                    try:
                        e = json.loads(line)
                    except Exception:
                        continue
                    if e.get("ev") == "reset":
                        cur = e["g"]
                        groups[cur] = [e]
                    elif cur is not None:
                        groups[cur].append(e)
        shutil.rmtree(d, ignore_errors=True)
        if rc != 0 and not groups:
            raise C.ToolError("crash driver failed rc=%d: %s" % (rc, o[-800:]))
        return groups

    allg = {}
    for g in C.parallel_map(job, list(range(len(behs))), workers=12):
        allg.update(g)
    shutil.rmtree(root, ignore_errors=True)
    return allg


def pipeline(tier):
    """Shared by C07/C08/C09: crash every generated workload at every I/O boundary, validate every
    (pre-crash trace, crash, post-recovery drain) against the contract, plain and batch-atomic."""
    key = "%s_%d_%s" % (tier, C.seed(), C.hash_files(C.tree_files(os.path.join(C.REPO, "src")) +
                                                      C.tree_files(os.path.join(C.VERIF, "harness", "engine", "src")) +
                                                      C.tree_files(os.path.join(C.VERIF, "vlib"), exts=(".py",)) +
                                                      C.tree_files(C.SPEC, exts=(".tla", ".cfg")) +
                                                      C.tree_files(os.path.join(C.VERIF, "corpus"), exts=(".ndjson",))))
    cache = os.path.join(C.ensure_dir(os.path.join(C.BUILD, "cache")), "crash_%s.json" % key)
    with C.FileLock(os.path.join(C.BUILD, "crash-pipeline.lock")):
        if os.path.exists(cache):
            with open(cache) as f:
                return json.load(f)
        t0 = time.time()
        n = 160 if tier == "thorough" else 24
        behs = PE.load_corpus_files("CRASH") + crash_corpus(n, C.seed())
        for b in behs:
            b["cfg"]["proj"] = False
        groups = run_crash(behs, 4000 if tier == "thorough" else 90, "crash")
        verd_plain, st1 = E.validate(groups, batch_atomic=False, tag="crashv", drop=("reclaim",))
        verd_atomic, st2 = E.validate(groups, batch_atomic=True, tag="crashva", drop=("reclaim",))
        groups = {g: [e for e in evs if e.get("ev") != "reclaim"] for g, evs in groups.items()}
        res = {"groups": groups, "plain": verd_plain, "atomic": verd_atomic, "behaviours": {b["id"]: b for b in behs},
               "tlc_states": st1["states_distinct"] + st2["states_distinct"], "wall_s": time.time() - t0}
        with open(cache, "w") as f:
            json.dump(res, f)
        return res


def _crash_check(pid, tier, own, use_atomic=False, rule_extra=""):
    ck = PE.EngineCheck(pid, tier)
    mc = PE.contract_mc(tier)
    P = pipeline(tier)
    groups, plain, atomic, behs = P["groups"], P["plain"], P["atomic"], P["behaviours"]
    failed = []
    for g in groups:
        if use_atomic:
            if plain[g]["ok"] and not atomic[g]["ok"]:
                failed.append((g, atomic[g]))
        else:
            if not plain[g]["ok"]:
                failed.append((g, plain[g]))
    diag = 0
    for g, v in failed:
        if not use_atomic and diag >= 40:
            ck.unattributed += 1
            continue
        diag += 1
        beh = behs.get(g.split("@")[0], {"id": g, "cfg": {}, "ops": []})
        # the C08 classification needs only the recorded events, not the contract state
        states = [] if use_atomic else E.contract_state_at(groups[g], v["index"], batch_atomic=use_atomic)
        div = E.classify(groups[g], v["index"], states)
        div["mode"] = beh["cfg"].get("mode")
        div["backend"] = beh["cfg"].get("backend")
        div["fsync"] = beh["cfg"].get("fsync")
        r0 = groups[g][0]
        div["crash_at"] = r0.get("crash_at")
        div["uring_mask"] = r0.get("mask")
        crash_ev = next((e for e in groups[g] if e.get("ev") == "crash"), None)
        div["inflight"] = (crash_ev or {}).get("inflight", [None])[0] if crash_ev and crash_ev.get("inflight") else "none"
        if use_atomic:
            div["kind"] = "partial_batch_recovered"
            # which in-flight entries came back, and had their writes completed before the crash?
            infl = (crash_ev or {}).get("inflight") or []
            es = [tuple(x) for x in (infl[2] if len(infl) > 2 else [])]
            after = groups[g][groups[g].index(crash_ev) + 1:] if crash_ev in groups[g] else []
            got = [tuple(x) for e in after if e.get("ev") in ("read", "bread") and e.get("t") == (infl[1] if len(infl) > 1 else None)
                   for x in e.get("res", [])]
            recovered = [j for j, x in enumerate(es) if x in got]
            mask = r0.get("mask") or 0
            div["recovered_indexes"] = recovered
            if mask:
                div["recovered_only_completed_writes"] = all((mask >> j) & 1 for j in recovered)
            else:
                div["recovered_only_completed_writes"] = None
        if not own(div):
            ck.unattributed += 1
            continue
        b2 = dict(beh)
        b2["id"] = g
        ck.report(b2, groups[g], v, div, states, extra={"crash_at": r0.get("crash_at"), "mask": r0.get("mask")})
    n_points = len(groups)
    with_inflight = sum(1 for g in groups.values() if any(e.get("ev") == "crash" and e.get("inflight") for e in g))
    uring_points = sum(1 for g in groups.values() if g[0].get("mask", 0) != 0)
    if n_points == 0:
        raise C.ToolError("no crash point was executed")
    coverage = {
        "states": mc["states"], "transitions": mc["transitions"],
        "traces_validated_against_impl": n_points,
        "evaluations": n_points, "distinct_nontrivial": with_inflight,
        "samples": [{"group": g, "events": [{k: v for k, v in e.items() if k in ("ev", "t", "res", "inflight", "crash_at", "mask", "st")}
                                            for e in groups[g][:12]]} for g in list(groups)[:2]],
        "rule": "workloads of 5-11 operations (appends, batches of 1-6 entries spanning blocks, read_next and batch reads) under "
                "fd/mmap x strict/alo{1..3} x fsync {200ms, SyncEach, NoFsync}; a dry run numbers every durable mutation of the caller "
                "thread (cfg hook io_event: write, io_uring submit, file create/set_len, fsync, dir sync, index/marker tmp write, rename); "
                "for every k the workload is re-run in a fresh directory and the process _exits before event k (for an io_uring batch after "
                "performing a chosen subset of its writes: all subsets up to 4 entries, prefixes/suffixes/holes/random beyond); a fresh process "
                "reopens and drains; TLC validates (events acknowledged before the crash, Crash(inflight), post-recovery reads) against "
                "WalrusAPI; non-trivial = crash points with an operation in flight. " + rule_extra,
        "crash_points": n_points, "crash_points_with_inflight_op": with_inflight, "io_uring_subset_points": uring_points,
        "workloads": len(behs), "contract_model": mc, "trace_tlc_states": P["tlc_states"], "rejected_traces": len(failed),
        "exhaustive": False,
    }
    return ck.finish("fault_enumeration", coverage, PE.COMMON_ASSUMPTIONS + [
        "process-crash model: every completed syscall persists (the kernel survives); crash points are the hook events of the caller thread; "
        "events of the background fsync thread and of the marker persister thread are not crash points",
        "io_uring subset completion is simulated by performing the selected writes with pwrite before exiting"])


def c07(tier):
    def own(d):
        k = d.get("kind", "")
        return (k.startswith("recover_") or k in ("extra", "reordered_or_dup", "skipped", "skipped_inside", "spurious_empty",
                                                  "read_err", "read_panic", "read_foreign", "hang", "died", "illegal_result", "unmatched"))
    return _crash_check("C07", tier, own)


def c08(tier):
    return _crash_check("C08", tier, lambda d: True, use_atomic=True,
                        rule_extra="C08 blames a crash point only if the trace is accepted with 'any prefix of the in-flight batch may "
                                   "survive' and rejected with 'all or nothing'.")


def c09(tier):
    def own(d):
        return d.get("kind") in ("redelivered", "skipped", "skipped_inside", "spurious_empty", "reordered_or_dup") and d.get("ev") in ("read", "bread")
    return _crash_check("C09", tier, own)


REGISTRY = {"C07": c07, "C08": c08, "C09": c09}
