"""Crash-point enumeration checks (C07, C08, C09) and power-loss reconstruction (C10)."""
import json
import os
import random
import shutil
import threading
import time

from . import common as C
from . import engine as E
from . import gen as G
from . import props_engine as PE
from . import syscalls as SC

CRASH_CFGS = [
    {"backend": "fd", "mode": "strict", "pe": 1, "fsync": "ms200"},
    {"backend": "mmap", "mode": "strict", "pe": 1, "fsync": "ms200"},
    {"backend": "fd", "mode": "alo", "pe": 2, "fsync": "none"},
    {"backend": "fd", "mode": "strict", "pe": 1, "fsync": "sync_each"},
    {"backend": "fd", "mode": "alo", "pe": 3, "fsync": "ms200"},
    {"backend": "mmap", "mode": "alo", "pe": 1, "fsync": "sync_each"},
]


def crash_corpus(n, seed):
    r = random.Random("crash/%d" % seed)
    out = []
    for i in range(n):
        cfg = dict(CRASH_CFGS[i % len(CRASH_CFGS)])
        if i % 4 == 3:
            # rejected appends on fresh topics leave allocated-but-empty blocks behind: recovery after a
            # crash must still find everything allocated after them
            b = G.gen_behaviour(r, "reject", "tiny", "cw%d" % i, cfg, length=r.randint(6, 12))
            b["ops"] = [o for o in b["ops"] if o.get("op") not in ("fault", "clear_fault", "reopen") and not o.get("maybe")]
        else:
            b = G.gen_behaviour(r, "crashw", "tiny", "cw%d" % i, cfg, length=r.randint(5, 11))
        b["cfg"]["proj"] = False
        out.append(b)
    # runs of allocated-but-empty blocks (rejected first operations on fresh topics) followed by written
    # blocks in the same file
    for j in range(max(2, n // 12)):
        order = ["b", "c"] if j % 2 == 0 else ["c", "b"]
        ops = [{"op": "append", "t": "a", "id": 1, "size": r.choice([100, 300, 700])}]
        for k, t in enumerate(order):
            ops.append(r.choice([{"op": "batch", "t": t, "es": [[100 + 10 * k + q, 10] for q in range(7)], "bad": True},
                                 {"op": "append", "t": t, "id": 100 + 10 * k, "size": 7937 + r.choice([0, 1, 400]), "bad": True},
                                 {"op": "batch", "t": t, "es": [], "bad": True}]))
        ops.append({"op": "append", "t": "a", "id": 2, "size": 1792})
        ops.append({"op": "append", "t": "a", "id": 3, "size": r.choice([100, 500])})
        ops.append({"op": "read", "t": "a", "ckpt": True})
        out.append({"id": "cwer%d" % j, "cfg": {"backend": "fd" if j % 2 == 0 else "mmap", "mode": "strict", "pe": 1, "fsync": "ms200",
                                                "topics": ["a", "b", "c"], "proj": False}, "ops": ops})
    # AtLeastOnce consumers draining a tail block with read_next: the persisted position must not lag
    # more than persist_every reads behind (C09)
    for j, (pe, k) in enumerate([(2, 5), (3, 6), (2, 7), (3, 5)][:max(4, n // 12)]):
        ops = [{"op": "append", "t": "a", "id": i + 1, "size": r.choice([64, 100, 128, 200])} for i in range(k)]
        ops += [{"op": "read", "t": "a", "ckpt": True} for _ in range(k - 1)]
        out.append({"id": "cwrn%d" % j, "cfg": {"backend": "fd" if j % 2 == 0 else "mmap", "mode": "alo", "pe": pe, "fsync": "ms200",
                                                "topics": ["a"], "proj": False}, "ops": ops})
    return out


def run_crash(behs, max_points, tag):
    binp = C.build_engine("tiny")
    root = C.ensure_dir(os.path.join(C.BUILD, "runs", "%s-%d" % (tag, os.getpid())))

    def job(ix):
        d = C.ensure_dir(os.path.join(root, "j%d" % ix))
        inp, out = os.path.join(d, "in.ndjson"), os.path.join(d, "out.ndjson")
        with open(inp, "w") as f:
            f.write(json.dumps(behs[ix]) + "\n")
        rc, o = C.sh([binp, "crash", "--in", inp, "--out", out, "--dir", os.path.join(d, "data"),
                      "--max-points", str(max_points), "--seed", str(C.seed())], timeout=3000, env={"WALRUS_QUIET": "1"})
        groups, cur = {}, None
        if os.path.exists(out):
            with open(out) as f:
                for line in f:
                    try:
                        e = json.loads(line)
                    except Exception:
                        continue
                    if e.get("ev") == "reset":
                        cur = e["g"]
                        groups[cur] = [e]
                    elif cur is not None:
                        groups[cur].append(e)
        shutil.rmtree(d, ignore_errors=True)
        if rc != 0 and not groups:
            raise C.ToolError("crash driver failed rc=%d: %s" % (rc, o[-800:]))
        return groups

    allg = {}
    for g in C.parallel_map(job, list(range(len(behs))), workers=12):
        allg.update(g)
    shutil.rmtree(root, ignore_errors=True)
    return allg


def pipeline(tier):
    """Shared by C07/C08/C09: crash every generated workload at every I/O boundary, validate every
    (pre-crash trace, crash, post-recovery drain) against the contract, plain and batch-atomic."""
    key = "%s_%d_%s" % (tier, C.seed(), C.hash_files(C.tree_files(os.path.join(C.REPO, "src")) +
                                                      C.tree_files(os.path.join(C.VERIF, "harness", "engine", "src")) +
                                                      C.tree_files(os.path.join(C.VERIF, "vlib"), exts=(".py",)) +
                                                      C.tree_files(C.SPEC, exts=(".tla", ".cfg")) +
                                                      C.tree_files(os.path.join(C.VERIF, "corpus"), exts=(".ndjson",))))
    cache = os.path.join(C.ensure_dir(os.path.join(C.BUILD, "cache")), "crash_%s.json" % key)
    with C.FileLock(os.path.join(C.BUILD, "crash-pipeline.lock")):
        if os.path.exists(cache):
            with open(cache) as f:
                return json.load(f)
        t0 = time.time()
        n = 160 if tier == "thorough" else 24
        behs = PE.load_corpus_files("CRASH") + crash_corpus(n, C.seed())
        for b in behs:
            b["cfg"]["proj"] = False
        groups = run_crash(behs, 4000 if tier == "thorough" else 90, "crash")
        verd_plain, st1 = E.validate(groups, batch_atomic=False, tag="crashv", drop=("reclaim",))
        verd_atomic, st2 = E.validate(groups, batch_atomic=True, tag="crashva", drop=("reclaim",))
        groups = {g: [e for e in evs if e.get("ev") != "reclaim"] for g, evs in groups.items()}
        res = {"groups": groups, "plain": verd_plain, "atomic": verd_atomic, "behaviours": {b["id"]: b for b in behs},
               "tlc_states": st1["states_distinct"] + st2["states_distinct"], "wall_s": time.time() - t0}
        with open(cache, "w") as f:
            json.dump(res, f)
        return res


def _scan_prediction_holds(es, got, op_writes, geom, events, crash_ev):
    """es: the in-flight batch's entries (key, size) in order; got: entries delivered after recovery;
    op_writes: [[offset, length, made], ...] one per entry. None when the evidence is missing."""
    if not op_writes or len(op_writes) != len(es) or not es:
        return None
    block = 2048 if geom == "tiny" else 10 * 1024 * 1024
    predicted, alive = [], True
    for j, (off, ln, made) in enumerate(op_writes):
        if j == 0 or off % block == 0:
            alive = True                      # a new block (or the writer's current block): the scan starts afresh
        alive = alive and bool(made)
        if alive:
            predicted.append(j)
    # delivered after recovery = (a suffix of the acknowledged log) ++ (the recovered part of the in-flight batch);
    # compare the tail with the predicted part and the rest with the acknowledged log (robust to equal payloads)
    topic = (crash_ev.get("inflight") or [None, None])[1]
    idx = events.index(crash_ev) if crash_ev in events else len(events)
    acked = []
    for e in events[:idx]:
        if e.get("t") != topic or e.get("res") != "ok":
            continue
        if e.get("ev") == "append":
            acked.append((e.get("k"), e.get("size")))
        elif e.get("ev") == "batch":
            acked += [tuple(y) for y in e.get("es", [])]
    want = [es[j] for j in predicted]
    if len(got) < len(want):
        return False
    tail = got[len(got) - len(want):]
    rem = got[:len(got) - len(want)]
    if tail != want:
        return False
    return len(rem) <= len(acked) and rem == acked[len(acked) - len(rem):]


def _crash_check(pid, tier, own, use_atomic=False, rule_extra=""):
    ck = PE.EngineCheck(pid, tier)
    mc = PE.contract_mc(tier)
    P = pipeline(tier)
    groups, plain, atomic, behs = P["groups"], P["plain"], P["atomic"], P["behaviours"]
    failed = []
    for g in groups:
        if use_atomic:
            if plain[g]["ok"] and not atomic[g]["ok"]:
                failed.append((g, atomic[g]))
        else:
            if not plain[g]["ok"]:
                failed.append((g, plain[g]))
    diag = 0
    for g, v in failed:
        if not use_atomic and diag >= 40:
            ck.unattributed += 1
            continue
        diag += 1
        beh = behs.get(g.split("@")[0], {"id": g, "cfg": {}, "ops": []})
        # the C08 classification needs only the recorded events, not the contract state
        states = [] if use_atomic else E.contract_state_at(groups[g], v["index"], batch_atomic=use_atomic)
        div = E.classify(groups[g], v["index"], states)
        div["mode"] = beh["cfg"].get("mode")
        div["backend"] = beh["cfg"].get("backend")
        div["fsync"] = beh["cfg"].get("fsync")
        r0 = groups[g][0]
        div["crash_at"] = r0.get("crash_at")
        div["uring_mask"] = r0.get("mask")
        crash_ev = next((e for e in groups[g] if e.get("ev") == "crash"), None)
        div["inflight"] = (crash_ev or {}).get("inflight", [None])[0] if crash_ev and crash_ev.get("inflight") else "none"
        if use_atomic:
            div["kind"] = "partial_batch_recovered"
            # which in-flight entries came back, and had their writes completed before the crash?
            infl = (crash_ev or {}).get("inflight") or []
            es = [tuple(x) for x in (infl[2] if len(infl) > 2 else [])]
            after = groups[g][groups[g].index(crash_ev) + 1:] if crash_ev in groups[g] else []
            got = [tuple(x) for e in after if e.get("ev") in ("read", "bread") and e.get("t") == (infl[1] if len(infl) > 1 else None)
                   for x in e.get("res", [])]
            recovered = [j for j, x in enumerate(es) if x in got]
            mask = r0.get("mask") or 0
            div["recovered_indexes"] = recovered
            if mask:
                # entries with equal payloads are indistinguishable: compare as multisets
                okm = True
                for val in set(es):
                    n_got = sum(1 for x in got if x == val)
                    n_written = sum(1 for j, x in enumerate(es) if x == val and (mask >> j) & 1)
                    n_before = 0   # the same payload may also have been acknowledged earlier
                    for e in groups[g][:groups[g].index(crash_ev)] if crash_ev in groups[g] else []:
                        if e.get("ev") == "append" and e.get("res") == "ok" and (e.get("k"), e.get("size")) == val:
                            n_before += 1
                        if e.get("ev") == "batch" and e.get("res") == "ok":
                            n_before += sum(1 for y in e.get("es", []) if tuple(y) == val)
                    if n_got > n_written + n_before:
                        okm = False
                div["recovered_only_completed_writes"] = okm
            else:
                div["recovered_only_completed_writes"] = None
            # the recorded finding is about writes that had NOT all been made when the process died; a batch whose
            # writes were all made is recovered whole by the unchanged engine
            wt, wd = r0.get("op_writes_total"), r0.get("op_writes_done")
            div["all_batch_writes_done"] = None if wt is None else bool(wt > 0 and wd >= wt)
            # What the recovery scan can reach of a partially written batch (WalrusBlocks `Scan`/`DiskSet`: a block is
            # the longest run of valid entries from its start; a unit without a valid first header is skipped): per
            # block of the batch, the longest prefix of entries whose writes were made. The finding covers exactly that.
            div["recovered_as_scan_predicts"] = _scan_prediction_holds(es, got, r0.get("op_writes"), r0.get("geom"),
                                                                       groups[g], crash_ev)
        if not own(div):
            ck.unattributed += 1
            continue
        b2 = dict(beh)
        b2["id"] = g
        ck.report(b2, groups[g], v, div, states, extra={"crash_at": r0.get("crash_at"), "mask": r0.get("mask")})
    n_points = len(groups)
    with_inflight = sum(1 for g in groups.values() if any(e.get("ev") == "crash" and e.get("inflight") for e in g))
    uring_points = sum(1 for g in groups.values() if g[0].get("mask", 0) != 0)
    if n_points == 0:
        raise C.ToolError("no crash point was executed")
    coverage = {
        "states": mc["states"], "transitions": mc["transitions"],
        "traces_validated_against_impl": n_points,
        "evaluations": n_points, "distinct_nontrivial": with_inflight,
        "samples": [{"group": g, "events": [{k: v for k, v in e.items() if k in ("ev", "t", "res", "inflight", "crash_at", "mask", "st")}
                                            for e in groups[g][:12]]} for g in list(groups)[:2]],
        "rule": "workloads of 5-11 operations (appends, batches of 1-6 entries spanning blocks, read_next and batch reads) under "
                "fd/mmap x strict/alo{1..3} x fsync {200ms, SyncEach, NoFsync}; a dry run numbers every durable mutation of the caller "
                "thread (cfg hook io_event: write, io_uring submit, file create/set_len, fsync, dir sync, index/marker tmp write, rename); "
                "for every k the workload is re-run in a fresh directory and the process _exits before event k (for an io_uring batch after "
                "performing a chosen subset of its writes: all subsets up to 4 entries, prefixes/suffixes/holes/random beyond); a fresh process "
                "reopens and drains; TLC validates (events acknowledged before the crash, Crash(inflight), post-recovery reads) against "
                "WalrusAPI; non-trivial = crash points with an operation in flight. " + rule_extra,
        "crash_points": n_points, "crash_points_with_inflight_op": with_inflight, "io_uring_subset_points": uring_points,
        "workloads": len(behs), "contract_model": mc, "trace_tlc_states": P["tlc_states"], "rejected_traces": len(failed),
        "exhaustive": False,
    }
    return ck.finish("fault_enumeration", coverage, PE.COMMON_ASSUMPTIONS + [
        "process-crash model: every completed syscall persists (the kernel survives); crash points are the hook events of the caller thread; "
        "events of the background fsync thread and of the marker persister thread are not crash points",
        "io_uring subset completion is simulated by performing the selected writes with pwrite before exiting"])


def c07(tier):
    def own(d):
        k = d.get("kind", "")
        return (k.startswith("recover_") or k in ("extra", "reordered_or_dup", "skipped", "skipped_inside", "spurious_empty",
                                                  "read_err", "read_panic", "read_foreign", "hang", "died", "illegal_result", "unmatched"))
    return _crash_check("C07", tier, own)


def c08(tier):
    return _crash_check("C08", tier, lambda d: True, use_atomic=True,
                        rule_extra="C08 blames a crash point only if the trace is accepted with 'any prefix of the in-flight batch may "
                                   "survive' and rejected with 'all or nothing'.")


def c09(tier):
    def own(d):
        return d.get("kind") in ("redelivered", "skipped", "skipped_inside", "spurious_empty", "reordered_or_dup") and d.get("ev") in ("read", "bread")
    return _crash_check("C09", tier, own)


REGISTRY = {"C07": c07, "C08": c08, "C09": c09}


# ------------------------------------------------------------------------------------------------
# C10: power loss with FsyncSchedule::SyncEach

PL_CFGS = [
    {"backend": "fd", "mode": "strict", "pe": 1, "fsync": "sync_each"},
    {"backend": "mmap", "mode": "strict", "pe": 1, "fsync": "sync_each"},
    {"backend": "fd", "mode": "alo", "pe": 2, "fsync": "sync_each"},
    # the process opened an instance with another schedule first (process-wide settings such as O_SYNC are latched
    # from the first instance): SyncEach must still hold for the later instance
    {"backend": "fd", "mode": "strict", "pe": 1, "fsync": "sync_each", "pre_fsync": "ms200"},
]


class Disk:
    """Power-loss disk model (the statement's): explicit syncs make file data and directory entries
    durable; every unsynced write / create / rename independently may or may not survive."""

    def __init__(self, o_sync):
        self.o_sync = o_sync
        self.files = {}        # file id -> {"durable": bytearray, "pending": [op,...]}
        self.dir_durable = {}  # path -> file id
        self.dir_now = {}      # path -> file id (volatile view)
        self.dir_pending = []  # [("create", path, fid) | ("rename", frm, to, fid) | ("unlink", path)]
        self.nfid = 0

    def _new(self):
        self.nfid += 1
        self.files[self.nfid] = {"durable": bytearray(), "pending": []}
        return self.nfid

    def apply(self, e):
        k, p = e["kind"], e["path"]
        if k == "create":
            fid = self._new()
            self.dir_now[p] = fid
            self.dir_pending.append(("create", p, fid))
        elif k == "set_len":
            fid = self.dir_now.get(p)
            if fid:
                self.files[fid]["pending"].append(("set_len", e["len"]))
        elif k in ("write", "uring_write"):
            fid = self.dir_now.get(p)
            if fid is None:
                return
            data = bytes.fromhex(e["data"]) if e.get("has_data") else b"\0" * e["len"]
            if e.get("osync", self.o_sync):
                # O_SYNC write: durable on return, together with everything needed to read it back
                self._flush(fid)
                self._write(self.files[fid]["durable"], e["off"], data)
            else:
                self.files[fid]["pending"].append(("write", e["off"], data))
        elif k == "write_file":
            fid = self.dir_now.get(p)
            if fid is None:
                fid = self._new()
                self.dir_now[p] = fid
                self.dir_pending.append(("create", p, fid))
            self.files[fid]["pending"].append(("replace", bytes.fromhex(e["data"])))
        elif k == "fsync":
            fid = self.dir_now.get(p)
            if fid:
                self._flush(fid)
        elif k == "dirsync":
            d = p.rstrip("/")
            keep = []
            for op in self.dir_pending:
                path = op[2] if op[0] == "rename" else op[1]
                if os.path.dirname(path) == d:
                    self._apply_dir(self.dir_durable, op)
                else:
                    keep.append(op)
            self.dir_pending = keep
        elif k == "rename":
            fid = self.dir_now.pop(p, None)
            if fid is not None:
                self.dir_now[e["path2"]] = fid
                self.dir_pending.append(("rename", p, e["path2"], fid))
        elif k == "unlink":
            self.dir_now.pop(p, None)
            self.dir_pending.append(("unlink", p))

    @staticmethod
    def _write(buf, off, data):
        if len(buf) < off + len(data):
            buf.extend(b"\0" * (off + len(data) - len(buf)))
        buf[off:off + len(data)] = data

    def _flush(self, fid):
        f = self.files[fid]
        for op in f["pending"]:
            self._apply_file(f["durable"], op)
        f["pending"] = []

    def _apply_file(self, buf, op):
        if op[0] == "set_len":
            if len(buf) < op[1]:
                buf.extend(b"\0" * (op[1] - len(buf)))
            else:
                del buf[op[1]:]
        elif op[0] == "write":
            self._write(buf, op[1], op[2])
        elif op[0] == "replace":
            del buf[:]
            buf.extend(op[1])

    @staticmethod
    def _apply_dir(d, op):
        if op[0] == "create":
            d[op[1]] = op[2]
        elif op[0] == "rename":
            d.pop(op[1], None)
            d[op[2]] = op[3]
        elif op[0] == "unlink":
            d.pop(op[1], None)

    def choices(self, rnd, limit=12):
        """Admissible loss sets: (subset of pending dir ops, per file subset of pending writes)."""
        nd = len(self.dir_pending)
        masks = set([0, (1 << nd) - 1])
        if nd <= 4:
            masks = set(range(1 << nd))
        else:
            for k in range(nd + 1):
                masks.add((1 << k) - 1)
            for _ in range(6):
                masks.add(rnd.getrandbits(nd))
        out = []
        for m in sorted(masks):
            # file contents: none / all / random subsets of pending writes
            out.append((m, "none"))
            if any(f["pending"] for f in self.files.values()):
                out.append((m, "all"))
                out.append((m, "rand"))
        rnd.shuffle(out)
        return out[:limit]

    def materialise(self, root_map, choice, rnd):
        """Writes the surviving state; root_map maps recorded paths to paths in the new sandbox."""
        mask, fmode = choice
        d = dict(self.dir_durable)
        created_lost = set()
        for i, op in enumerate(self.dir_pending):
            if (mask >> i) & 1:
                if op[0] == "rename" and op[1] not in d and op[3] in created_lost:
                    continue   # a rename survives only if the creation of its source does
                self._apply_dir(d, op)
            elif op[0] == "create":
                created_lost.add(op[2])
        for path, fid in d.items():
            f = self.files[fid]
            buf = bytearray(f["durable"])
            for op in f["pending"]:
                if fmode == "all" or (fmode == "rand" and rnd.random() < 0.5):
                    self._apply_file(buf, op)
            dst = root_map(path)
            os.makedirs(os.path.dirname(dst), exist_ok=True)
            with open(dst, "wb") as fh:
                fh.write(buf)


LAST_BINDING = {}


def run_powerloss(behs, tier, tag):
    binp = C.build_engine("tiny")
    root = C.ensure_dir(os.path.join(C.BUILD, "runs", "%s-%d" % (tag, os.getpid())))
    g = {"max_batch": 6}
    binding, binding_lock = {}, threading.Lock()
    LAST_BINDING.clear()
    traced = SC.available()

    def job(ix):
        beh = behs[ix]
        rnd = random.Random("pl/%d/%d" % (C.seed(), ix))
        d = C.ensure_dir(os.path.join(root, "j%d" % ix))
        spec = os.path.join(d, "beh.json")
        open(spec, "w").write(json.dumps(beh))
        dry_out, dry_dir, iolog = os.path.join(d, "dry.ndjson"), os.path.join(d, "dry"), os.path.join(d, "io.json")
        cmd = [binp, "crash", "child-run", "--beh", spec, "--dir", dry_dir, "--out", dry_out, "--at", "0", "--dump-io", iolog]
        stfile = os.path.join(d, "strace.txt")
        rc, o = C.sh(SC.wrap(cmd, stfile) if traced else cmd, timeout=300, env={"WALRUS_QUIET": "1"}, cwd=d)
        if not os.path.exists(iolog):
            raise C.ToolError("power-loss dry run failed rc=%s %s" % (rc, o[-400:]))
        io = json.load(open(iolog))
        events, marks = io["events"], io["marks"]
        if traced:
            # bind the hook events to the system calls really made (vlib/syscalls.py): unbacked events leave the stream
            events, marks, rep = SC.reconcile(events, marks, stfile, d, dry_dir, beh["cfg"]["backend"])
            if rep["unhooked"] or rep["background_unhooked"]:
                raise C.ToolError("hook incomplete: workload %s makes system calls on the data directory that no hook event announces: %s"
                                  % (beh["id"], json.dumps((rep["unhooked"] + rep["background_unhooked"])[:3])))
            with binding_lock:
                for k in ("matched", "hook_events_compared", "osync_writes", "plain_writes"):
                    binding[k] = binding.get(k, 0) + rep[k]
                binding["traced_runs"] = binding.get("traced_runs", 0) + 1
                binding.setdefault("unbacked", []).extend([dict(u, workload=beh["id"]) for u in rep["unbacked"]][:5])
        evs = [json.loads(l) for l in open(dry_out) if l.strip()]
        # acknowledged API events per completed operation
        per_op, cur_ops, pending = [], [], []
        for e in evs:
            if e.get("ev") == "note" and e.get("what") == "opstart":
                pending = []
            elif e.get("ev") == "note" and e.get("what") == "opdone":
                per_op.append(pending)
                pending = []
            elif e.get("ev") != "note":
                pending.append(e)
        # per_op[0] = open; per_op[k] = k-th operation
        o_sync = beh["cfg"]["backend"] == "fd" and not beh["cfg"].get("pre_fsync")
        groups = {}
        nops = len(beh["ops"])
        points = []
        for k in range(0, nops + 1):
            points.append((marks[k], k, None))            # right after operation k returned (k=0: after open)
        if tier == "thorough" or ix % 2 == 0:
            # (quick: every second workload) also every I/O-trace prefix inside an operation
            for k in range(1, nops + 1):                  # inside operation k
                for pos in range(marks[k - 1] + 1, marks[k]):
                    points.append((pos, k - 1, k))
        for (pos, done, inflight_op) in points:
            disk = Disk(o_sync)
            for e in events[:pos]:
                disk.apply(e)
            for ci, choice in enumerate(disk.choices(rnd, 10 if tier == "thorough" else 5)):
                gid = "%s@io%d_c%d" % (beh["id"], pos, ci)
                sand = os.path.join(d, "s_%d_%d" % (pos, ci))
                disk.materialise(lambda p: os.path.join(sand, os.path.relpath(p, dry_dir)), choice, rnd)
                os.makedirs(os.path.join(sand, "d0"), exist_ok=True)
                infl = "[]"
                if inflight_op is not None:
                    infl = json.dumps(_inflight(beh["ops"][inflight_op - 1], g["max_batch"]))
                rout = os.path.join(d, "r.ndjson")
                if os.path.exists(rout):
                    os.remove(rout)
                rc2, o2 = C.sh([binp, "crash", "child-recover", "--beh", spec, "--dir", sand, "--out", rout, "--inflight", infl],
                               timeout=120, env={"WALRUS_QUIET": "1"})
                revs = [json.loads(l) for l in open(rout) if l.strip()] if os.path.exists(rout) else []
                if not revs:
                    revs = [{"ev": "crash", "i": 0, "inflight": json.loads(infl), "res": "recover_child_exit_%s" % rc2}]
                head = {"ev": "reset", "g": gid, "mode": beh["cfg"]["mode"], "pe": beh["cfg"].get("pe", 1), "mb": 6,
                        "backend": beh["cfg"]["backend"], "geom": "tiny", "io_prefix": pos, "choice": [choice[0], choice[1]],
                        "pending_dir_ops": [list(map(str, op[:3])) for op in disk.dir_pending]}
                acked = [e for ops in per_op[1:done + 1] for e in ops]
                groups[gid] = [head] + acked + revs
                shutil.rmtree(sand, ignore_errors=True)
        shutil.rmtree(d, ignore_errors=True)
        return groups, (beh["id"], beh["cfg"]["backend"], _io_stream(events))

    allg, streams = {}, []
    for gr, st in C.parallel_map(job, list(range(len(behs))), workers=10):
        allg.update(gr)
        streams.append(st)
    shutil.rmtree(root, ignore_errors=True)
    LAST_BINDING.update(binding)
    return allg, streams


def _io_stream(events):
    """Hook events as Trace_WalrusIO sees them: kind + file class, caller thread only."""
    out = []
    for e in events:
        k, base = e["kind"], os.path.basename(e["path"])
        if "topic_clean" in base:
            continue
        if k == "uring_write":
            k = "write"
        elif not e.get("counted"):
            continue
        if k in ("create", "set_len", "uring_submit", "unlink"):
            continue
        f = "wal" if base.isdigit() else ("idx" if "read_offset_idx" in base else "dir")
        out.append({"k": k, "f": f})
    return out


def validate_io(streams, tag="iov"):
    """TLC: is every recorded I/O stream a behaviour of the WalrusIO step protocol?"""
    root = C.ensure_dir(os.path.join(C.BUILD, "runs", "%s-%d" % (tag, os.getpid())))
    tr = os.path.join(root, "io.ndjson")
    bounds, line = [], 0
    with open(tr, "w") as f:
        for bid, backend, evs in streams:
            f.write(json.dumps({"k": "reset", "f": bid}) + "\n")
            line += 1
            first = line + 1
            for e in evs:
                f.write(json.dumps(e) + "\n")
                line += 1
            bounds.append((bid, first, line))
    rc, out, wall = C.tlc(os.path.join(C.SPEC, "Trace_WalrusIO.tla"), os.path.join(C.SPEC, "Trace_WalrusIO.cfg"), root,
                          env={"TRACE": tr}, workers=1, timeout=600, deque=True)
    if "Error:" in out or rc != 0:
        raise C.ToolError("TLC (Trace_WalrusIO) failed:\n" + out[-2000:])
    import re as _re
    reached = set(int(x) for x in _re.findall(r'<<"AT", (\d+)>>', out))
    gen, dist = C.tlc_stats(out)
    drift = []
    for bid, first, last in bounds:
        if (last + 1) not in reached:
            k = max([x for x in reached if first <= x <= last + 1] or [first])
            drift.append((bid, k - first))
    shutil.rmtree(root, ignore_errors=True)
    return drift, dist


def design_mc_io():
    """TLC on the durability design WalrusIO: the fixed protocol holds, the variant without the
    directory sync after the index rename must be rejected (vacuity guard)."""
    spec = os.path.join(C.SPEC, "WalrusIO.tla")
    key = C.hash_files([spec] + [os.path.join(C.SPEC, "MC_WalrusIO_%s.cfg" % n) for n in ("ok_fd", "ok_mmap", "defect_nodirsync")])
    cache = os.path.join(C.ensure_dir(os.path.join(C.BUILD, "cache")), "mc_io_%s.json" % key)
    if os.path.exists(cache):
        return json.load(open(cache))
    res = {"states": 0, "transitions": 0, "configs": {}}
    for n in ("ok_fd", "ok_mmap", "defect_nodirsync"):
        rc, out, wall = C.tlc(spec, os.path.join(C.SPEC, "MC_WalrusIO_%s.cfg" % n), os.path.join(C.BUILD, "runs", "mc_io_%d" % os.getpid()),
                              workers=2, extra=["-coverage", "1"], timeout=300)
        gen, dist = C.tlc_stats(out)
        violated = "is violated" in out
        if n.startswith("ok") and (violated or dist == 0):
            raise C.ToolError("WalrusIO %s: invariants do not hold:\n%s" % (n, out[-1500:]))
        if n.startswith("defect") and not violated:
            raise C.ToolError("WalrusIO %s: the defective protocol is not rejected (vacuous)" % n)
        if n.startswith("ok"):
            cov = C.tlc_coverage(out)
            dead = [a for a, (d, t) in cov.items() if a[0].isupper() and a not in ("Init", "TypeOK") and not a.startswith("Inv") and t == 0]
            if dead:
                raise C.ToolError("WalrusIO %s: actions never enabled: %s" % (n, dead))
        res["states"] += dist
        res["transitions"] += gen
        res["configs"][n] = {"states": dist, "violated": violated}
    json.dump(res, open(cache, "w"))
    return res


def _inflight(op, max_batch):
    from .gen import PREFIX  # noqa: F401
    kind = op.get("op")
    t = op.get("t", "a")

    def key(i, s):
        return i if s >= 8 else -(s + 1)
    if kind == "append" and "tlen" not in op:
        return ["append", t, [[key(op["id"], op["size"]), op["size"]]]]
    if kind == "batch" and "tlen" not in op:
        return ["batch", t, [[key(e[0], e[1]), e[1]] for e in op["es"]]]
    if kind == "read" and op.get("ckpt", True):
        return ["read", t, 1]
    if kind == "bread" and op.get("ckpt", True) and op.get("off", -1) < 0:
        return ["read", t, max_batch]
    return []


def c10(tier):
    ck = PE.EngineCheck("C10", tier)
    mc = PE.contract_mc(tier)
    r = random.Random("c10/%d" % C.seed())
    n = 40 if tier == "thorough" else 12
    behs = PE.load_corpus_files("C10")
    for i in range(n):
        cfg = dict(PL_CFGS[i % len(PL_CFGS)])
        b = G.gen_behaviour(r, "crashw", "tiny", "pl%d" % i, cfg, length=r.randint(4, 9))
        b["cfg"]["proj"] = False
        behs.append(b)
    io_mc = design_mc_io()
    groups, streams = run_powerloss(behs, tier, "c10")
    drift, io_states = validate_io(streams)
    for bid, at in drift[:5]:
        print("MODEL-DRIFT: the I/O stream of workload %s leaves the WalrusIO step protocol at event %d" % (bid, at))
    verd, stats = E.validate(groups, tag="c10v", drop=("reclaim", "counts", "is_clean"))
    groups = {g: [e for e in evs if e.get("ev") not in ("reclaim", "counts", "is_clean")] for g, evs in groups.items()}
    byid = {b["id"]: b for b in behs}
    failed = [g for g in verd if not verd[g]["ok"]]
    for g in failed[:40]:
        beh = byid.get(g.split("@")[0])
        states = E.contract_state_at(groups[g], verd[g]["index"])
        div = E.classify(groups[g], verd[g]["index"], states)
        div["mode"] = beh["cfg"]["mode"]
        div["backend"] = beh["cfg"]["backend"]
        r0 = groups[g][0]
        lost = [op for i, op in enumerate(r0.get("pending_dir_ops", [])) if not (r0["choice"][0] >> i) & 1]
        div["lost_dir_ops"] = sorted(set(op[0] + ":" + ("index" if "read_offset_idx" in (op[2] if op[0] == "rename" else op[1]) else
                                                       "marker" if "topic_clean" in (op[2] if op[0] == "rename" else op[1]) else "wal")
                                         for op in lost))
        b2 = dict(beh)
        b2["id"] = g
        ck.report(b2, groups[g], verd[g], div, states, extra={"io_prefix": r0.get("io_prefix"), "choice": r0.get("choice")})
    ck.unattributed = max(0, len(failed) - 40)
    if not groups:
        raise C.ToolError("no power-loss state was reconstructed")
    coverage = {
        "states": mc["states"], "transitions": mc["transitions"],
        "traces_validated_against_impl": len(groups),
        "evaluations": len(groups), "distinct_nontrivial": sum(1 for g in groups.values() if g[0].get("pending_dir_ops")),
        "samples": [{"group": g, "head": {k: v for k, v in groups[g][0].items() if k in ("io_prefix", "choice", "pending_dir_ops", "backend", "mode")}}
                    for g in list(groups)[:3]],
        "rule": "SyncEach workloads (fd with O_SYNC, mmap with msync per append; strict and alo) are run once with the cfg hook recording "
                "every durable mutation with its bytes; for every I/O-trace prefix that ends at an operation boundary (thorough: every "
                "prefix) and for admissible loss sets (all subsets of unsynced directory operations up to 4, sampled beyond; unsynced file "
                "writes none/all/random) the directory is reconstructed as the statement's power-loss model leaves it and opened by a fresh "
                "process that drains every topic; TLC validates (acknowledged events, Crash(inflight), post-recovery reads) against WalrusAPI; "
                "non-trivial = reconstructed states with at least one unsynced directory operation",
        "workloads": len(behs), "contract_model": mc, "trace_tlc_states": stats["states_distinct"], "rejected_traces": len(failed),
        "design_model_WalrusIO": io_mc, "io_streams_validated_against_WalrusIO": len(streams), "io_stream_tlc_states": io_states,
        "drift": len(drift),
        "syscall_binding": dict(LAST_BINDING) or "strace unavailable: hook events taken on trust",
    }
    return ck.finish("fault_enumeration", coverage, PE.COMMON_ASSUMPTIONS + [
        "power-loss model of the property statement: explicit syncs (fsync, msync, O_SYNC writes, directory fsync) are durable, every other "
        "write/create/rename independently may or may not be; the reconstruction is done outside the engine from the recorded I/O trace",
        "hook events are bound to real system calls by running every workload under strace (vlib/syscalls.py): caller-thread events without "
        "their system call are removed before the power-loss model is applied, writes carry the observed O_SYNC status, msync counts only "
        "as MS_SYNC, an unannounced system call on the data directory is a tool error; io_uring writes are visible only as io_uring_enter "
        "(count of submissions), their offsets and bytes are the hook's; events of background threads are taken in log order"])


REGISTRY["C10"] = c10
