"""Engine pipeline: behaviours -> real engine (engine-driver) -> ndjson traces -> TLC (contract)."""
import json
import os
import re
import shutil
import time

from . import common as C

CHUNK = 60          # behaviours per driver process (every Walrus leaks a background thread)
TLC_EVENTS = 60000  # events per TLC validation run


def cfg_key(cfg):
    return (cfg.get("backend", "fd"), cfg.get("fsync", "ms200"))


def run_behaviours(behs, geom="tiny", workers=12, tag="run"):
    """Executes behaviours on the real engine. Returns {beh_id: [events]} (events = dicts,
    first one the reset event). Behaviours whose driver process hung or died get a final
    event {"ev":"hang"|"died"}."""
    binp = C.build_engine(geom)
    root = C.ensure_dir(os.path.join(C.BUILD, "runs", "%s-%d" % (tag, os.getpid())))
    # group by process-global configuration
    by_cfg = {}
    for b in behs:
        by_cfg.setdefault(cfg_key(b["cfg"]), []).append(b)
    jobs = []
    n = 0
    for key, lst in by_cfg.items():
        for i in range(0, len(lst), CHUNK):
            jobs.append((n, lst[i:i + CHUNK]))
            n += 1

    def job(j):
        idx, chunk = j
        d = C.ensure_dir(os.path.join(root, "j%d" % idx))
        inp = os.path.join(d, "in.ndjson")
        out = os.path.join(d, "out.ndjson")
        with open(inp, "w") as f:
            for b in chunk:
                f.write(json.dumps(b) + "\n")
        start = 0
        guard = 0
        while start < len(chunk) and guard < len(chunk) + 2:
            guard += 1
            rc, o = C.sh([binp, "run", "--in", inp, "--out", out, "--dir", os.path.join(d, "data"),
                          "--start", str(start)], timeout=3600, env={"WALRUS_QUIET": "1"})
            if rc == 0:
                break
            # the process died (hang watchdog = 88, abort, signal): find the behaviour it was in
            last = -1
            if os.path.exists(out):
                with open(out) as f:
                    for line in f:
                        if '"what":"begin"' in line:
                            try:
                                last = json.loads(line)["n"]
                            except Exception:
                                pass
            with open(out, "a") as f:
                f.write(json.dumps({"ev": "hang" if rc == 88 else "died", "st": "died", "rc": rc}) + "\n")
            start = max(last, start) + 1
        evs = {}
        cur = None
        if os.path.exists(out):
            with open(out) as f:
                for line in f:
                    line = line.strip()
                    if not line:
                        continue
                    try:
                        e = json.loads(line)
                    except Exception:
                        continue
                    if e.get("ev") == "reset":
                        cur = e["g"]
                        evs[cur] = [e]
                    elif cur is not None:
                        evs[cur].append(e)
        shutil.rmtree(d, ignore_errors=True)
        return evs

    res = {}
    for evs in C.parallel_map(job, jobs, workers=workers):
        res.update(evs)
    shutil.rmtree(root, ignore_errors=True)
    return res


# ------------------------------------------------------------------------------------------------

def _strip(e):
    """Events as TLC sees them (proj and free-form fields removed to keep parsing cheap)."""
    if e.get("ev") == "note":
        return {"ev": "note"}          # notes of the harness carry no obligation (and free-form payloads)
    return {k: v for k, v in e.items() if k not in ("proj", "kind", "backend", "fsync", "geom", "file", "what", "n_beh")}


def validate(groups, batch_atomic=False, tag="val", workers=6, drop=()):
    """groups: {gid: [events]}. Validates every group against the contract WalrusAPI with TLC.
    Returns {gid: {"ok": bool, "matched": k, "first_unmatched": event or None}} and TLC totals."""
    root = C.ensure_dir(os.path.join(C.BUILD, "runs", "%s-%d" % (tag, os.getpid())))
    if drop:
        groups = {g: [e for e in evs if e.get("ev") not in drop] for g, evs in groups.items()}
    gids = list(groups.keys())
    # partition into TLC runs
    parts, cur, cnt = [], [], 0
    for g in gids:
        n = len(groups[g])
        if cur and cnt + n > TLC_EVENTS:
            parts.append(cur)
            cur, cnt = [], 0
        cur.append(g)
        cnt += n
    if cur:
        parts.append(cur)
    cfg = _cfg_file(root, batch_atomic)

    def run(pi):
        part = parts[pi]
        d = C.ensure_dir(os.path.join(root, "p%d" % pi))
        tr = os.path.join(d, "trace.ndjson")
        bounds = []  # (gid, first line (1-based), last line)
        line = 0
        with open(tr, "w") as f:
            for g in part:
                first = line + 1
                for e in groups[g]:
                    f.write(json.dumps(_strip(e)) + "\n")
                    line += 1
                bounds.append((g, first, line))
        rc, out, wall = C.tlc(os.path.join(C.SPEC, "Trace_WalrusAPI.tla"), cfg, d, env={"TRACE": tr},
                              workers=1, timeout=900)
        if "Error:" in out or rc not in (0,):
            raise C.ToolError("TLC trace validation failed to run:\n" + out[-3000:])
        reached = set(int(x) for x in re.findall(r'<<"AT", (\d+)>>', out))
        gen, dist = C.tlc_stats(out)
        verd = {}
        for g, first, last in bounds:
            verd_events = groups[g]
            # accepted iff the position just after the last event was reached without skipping
            if (last + 1) in reached:
                verd[g] = {"ok": True, "matched": last - first + 1, "first_unmatched": None}
            else:
                k = max([x for x in reached if first <= x <= last + 1] or [first])
                verd[g] = {"ok": False, "matched": k - first, "first_unmatched": verd_events[k - first],
                           "index": k - first, "events": verd_events if drop else None}
        shutil.rmtree(d, ignore_errors=True)
        return verd, gen, dist, wall

    verdicts, tg, td = {}, 0, 0
    for verd, gen, dist, wall in C.parallel_map(run, list(range(len(parts))), workers=workers):
        verdicts.update(verd)
        tg += gen
        td += dist
    shutil.rmtree(root, ignore_errors=True)
    return verdicts, {"states_generated": tg, "states_distinct": td}


def _cfg_file(root, batch_atomic, report="Report"):
    p = os.path.join(root, "trace_%s_%s.cfg" % ("atomic" if batch_atomic else "plain", report))
    with open(p, "w") as f:
        f.write("SPECIFICATION TSpec\nCONSTANTS\n  Topics <- TopicsDef\n  InstOf <- InstOfDef\n"
                "  BatchAtomic = %s\nINVARIANTS %s TypeOK InvReclaimedConsumed\nCHECK_DEADLOCK FALSE\n"
                % ("TRUE" if batch_atomic else "FALSE", report))
    return p


def contract_state_at(events, index, batch_atomic=False, tag="diag"):
    """Contract state(s) just before events[index] (the first unmatched event), as TLC computed
    them. Returns a list of dicts {log, cur, lb, ...} (several when the contract branched)."""
    root = C.ensure_dir(os.path.join(C.BUILD, "runs", "%s-%d-%d" % (tag, os.getpid(), int(time.time() * 1e6) % 10**9)))
    tr = os.path.join(root, "trace.ndjson")
    with open(tr, "w") as f:
        for e in events[:index + 1]:
            f.write(json.dumps(_strip(e)) + "\n")
    cfg = _cfg_file(root, batch_atomic, report="ReportState")
    rc, out, wall = C.tlc(os.path.join(C.SPEC, "Trace_WalrusAPI.tla"), cfg, root, env={"TRACE": tr}, workers=1,
                          timeout=300)
    states = []
    for m in re.finditer(r'<<"ST", (\d+), "(.*)">>', out):
        if int(m.group(1)) == index + 1:
            try:
                js = m.group(2).encode().decode("unicode_escape")
                states.append(json.loads(js))
            except Exception:
                pass
    shutil.rmtree(root, ignore_errors=True)
    return states


# ------------------------------------------------------------------------------------------------
# divergence classification (for reports and known-finding matchers; never an oracle)

def classify(events, index, states):
    """Describes how events[index] diverges from the contract state(s) before it."""
    e = events[index]
    ev = e.get("ev")
    d = {"ev": ev, "kind": "unmatched"}
    for k in ("t", "ckpt", "budget", "off", "i"):
        if k in e:
            d[k] = e[k]
    # context flags from the prefix
    pre = events[:index]
    d["after_reopen"] = any(x.get("ev") == "reopen" for x in pre)
    d["after_failed_append"] = any(x.get("ev") in ("append", "batch") and x.get("res") != "ok" for x in pre)
    d["after_peek"] = any((x.get("ev") in ("read", "bread") and (not x.get("ckpt", True) or x.get("off", -1) >= 0)) for x in pre)
    d["after_crash"] = any(x.get("ev") == "crash" for x in pre)
    last = pre[-1].get("ev") if pre else None
    d["prev_ev"] = last
    # history attribute: some topic's first acknowledged entry does not fit a default block
    # (its initial block stays empty: known finding about block-id drift across restarts)
    geom = events[0].get("geom", "tiny") if events else "tiny"
    blk = 2048 if geom == "tiny" else 10 * 1024 * 1024
    first = {}
    for x in pre:
        if x.get("ev") == "append" and x.get("res") == "ok":
            first.setdefault(x["t"], x["size"])
        elif x.get("ev") == "batch" and x.get("res") == "ok" and x.get("es"):
            first.setdefault(x["t"], x["es"][0][1])
    d["oversized_first_entry"] = any(sz + 256 > blk for sz in first.values())
    if ev in ("hang", "died"):
        d["kind"] = ev
        return d
    if ev in ("read", "bread") and e.get("st") != "ok":
        d["kind"] = "read_" + str(e.get("st"))
        return d
    if ev == "reopen":
        d["kind"] = "reopen_" + str(e.get("res"))
        return d
    if ev == "crash":
        d["kind"] = "recover_" + str(e.get("res"))
        return d
    st = states[0] if states else None
    if ev == "counts" and st:
        for t, n in e["n"].items():
            exp = len(st["log"].get(t, [])) - st["cur"].get(t, 0)
            if st["countKnown"].get(t, True) and n != exp:
                d["kind"] = "count_high" if n > exp else "count_low"
                d["t"] = t
                d["delta"] = n - exp
                break
        return d
    if ev == "is_clean":
        d["kind"] = "wrong_marker"
        d["reported"] = e.get("v")
        return d
    if ev == "reclaim":
        d["kind"] = "premature_reclaim"
        if st:
            d["consumed_in_memory"] = all(p[1] <= st["cur"].get(p[0], 0) - st.get("slack", {}).get(p[0], 0)
                                          for p in e.get("stored", []))
        return d
    if ev in ("read", "bread") and st:
        t = e["t"]
        lg = [tuple(x) for x in st["log"].get(t, [])]
        cur = st["cur"].get(t, 0)
        unread = lg[cur:]
        res = [tuple(x) for x in e.get("res", [])]
        if e.get("off", -1) >= 0:
            d["kind"] = "offset_read_illegal"
            return d
        if not res and unread:
            d["kind"] = "spurious_empty"
        elif res and not unread:
            d["kind"] = "redelivered" if all(r in lg for r in res) else "extra"
        elif res and res[0] != unread[0]:
            if res[0] in unread:
                d["kind"] = "skipped"
                d["skipped_n"] = unread.index(res[0])
            elif res[0] in lg[:cur]:
                d["kind"] = "redelivered"
            else:
                d["kind"] = "extra"
        elif res != unread[:len(res)]:
            j = next(i for i in range(len(res)) if i >= len(unread) or res[i] != unread[i])
            d["kind"] = "skipped_inside" if res[j] in unread[j:] else "reordered_or_dup"
        else:
            mb = st.get("maxBatch", 2000)
            tot = sum(x[1] for x in res)
            if len(res) > mb:
                d["kind"] = "over_cap"
            elif e.get("budget", -1) >= 0 and len(res) > 1 and tot > e["budget"]:
                d["kind"] = "over_budget"
            elif st.get("lastPeek"):
                d["kind"] = "peek_disagrees"
            else:
                d["kind"] = "illegal_result"
        p = e.get("proj")
        if p:
            d["cursor_in"] = "sealed" if p["ci"] < len(p["ch"]) else "tail"
            d["index_kind"] = "none" if not p["ix"] else ("tail" if p["ix"][0] == 1 else "sealed")
        return d
    return d
