"""Design model WalrusBlocks (layer B): model checking against the contract, behaviour generation,
replay on the real engine, contract validation of the traces, model-drift report.

    blocks_pipeline(tier)  -> dict (cached per process and, keyed by spec + engine source hash, on disk)
    c01_blocks / c03_blocks / c06_blocks / c15_blocks (tier) -> (exit_code, coverage_dict, lines_to_print)
    c12_blocks(tier): the same pipeline over the reclamation configurations (tiers "reclaim_quick" /
        "reclaim_thorough"): a file becomes fully allocated, its blocks are consumed, the design raises
        reclamation requests; the engine's `reclaim` events stay in the traces and are decided by the contract
    python3 -m vlib.props_blocks quick|thorough|reclaim_quick|reclaim_thorough [--selftest] [--no-cache]

The projection compared op by op includes the per-file reclamation counters (FileStateTracker: locked,
checkpointed, total, fully allocated; files by ordinal) and, per operation, the multiset of reclamation
requests (file ordinal + entries stored in the file).

Only the contract (Trace_WalrusAPI via vlib.engine.validate) raises violations. Differences between
the engine's projected state and the design's expectation are MODEL-DRIFT lines (never a violation)."""
import glob
import gzip
import json
import os
import random
import re
import shutil
import sys
import time

from . import common as C
from . import engine as E
from . import gen as G

REGISTRY = {}

MODULE = "MC_WalrusBlocks.tla"
DEPS = ["WalrusBlocks.tla", "WalrusAPI.tla"]
WORKERS = 6
PROJ_FIELDS = ("ch", "ci", "co", "tb", "to", "w", "ix", "hy", "rsp", "fs")
INIT_PROJ = {"ch": [], "ci": 0, "co": 0, "tb": 0, "to": 0, "w": [], "ix": [], "hy": False, "rsp": 0, "n": 0}
INIT_FS = [[0, 0, 0, False]]
# actions that need not fire in a configuration (everything else named Op* must, -coverage 1)
OPTIONAL_ACTIONS_STD = ("OpReclaim", "OpReopenNew")

# code paths (labels of `lastOp`) every generation run must reach: the vacuity guard on the model's reach
REQUIRED_PATHS = (
    "append_fits", "append_fits_first", "append_rotate", "append_rotate_multi", "append_rotate_empty",
    "batch_rotate", "batchfail_rotated", "batchfail_inplace", "reopen",
    "rn_sealed", "rn_sealed_adv", "rn_tail_init", "rn_tail", "rn_tail_caughtup", "rn_nowriter",
)
REQUIRED_PATH_PATTERNS = (
    r"^br_s1_", r"^br_s2\+", r"^br_s\d\+?p", r"^br_.*_t_", r"^br_.*_short$", r"^br_.*_cut$",
)
# the reclamation configurations: code paths of the operation that raised a request (at least one
# history each), besides the paths every generation run of them must reach
RECLAIM_REQUIRED_PATHS = ("append_rotate_newfile", "batch_rotate_many", "reopen", "reopen_new", "rn_sealed_adv", "rn_sealed_peek_adv")
RECLAIM_REQUEST_PATTERNS = (r"^rn_sealed(_peek)?_adv", r"^rn_tail_.*adv", r"^br_s", r"^br_peek_")

TIERS = {
    # mc: (cfg, expect)   gen: cfg whose HIST lines are turned into behaviours
    "quick": {
        "mc": ["MC_WalrusBlocks_quick.cfg"],
        "gen": "MC_WalrusBlocks_quick.cfg",
        "defects": ["MC_WalrusBlocks_defect_parser.cfg", "MC_WalrusBlocks_defect_budget0.cfg",
                    "MC_WalrusBlocks_defect_tailinit.cfg"],
        "known": [],
        "max_behaviours": 1500, "simulate": None, "timeout": 600,
    },
    # C12: reclamation bookkeeping. `drop`: event kinds removed before contract validation.
    "reclaim_quick": {
        "flavour": "reclaim",
        "mc": ["MC_WalrusBlocks_reclaim.cfg"],
        "gen": "MC_WalrusBlocks_reclaim.cfg",
        "defects": ["MC_WalrusBlocks_defect_ckptevery.cfg"],
        "known": ["MC_WalrusBlocks_finding_alo_reclaim.cfg"],
        "optional": {"MC_WalrusBlocks_reclaim.cfg": ("OpBatchFail",)},
        "max_behaviours": 400, "simulate": None, "timeout": 600,
    },
    "reclaim_thorough": {
        "flavour": "reclaim",
        "mc": ["MC_WalrusBlocks_reclaim_deep.cfg", "MC_WalrusBlocks_reclaim2.cfg"],
        "gen": "MC_WalrusBlocks_reclaim_deep.cfg",
        "gen_extra": ["MC_WalrusBlocks_reclaim2.cfg"],
        "defects": ["MC_WalrusBlocks_defect_ckptevery.cfg"],
        "known": ["MC_WalrusBlocks_finding_alo_reclaim.cfg"],
        "optional": {"MC_WalrusBlocks_reclaim_deep.cfg": ("OpBatchFail",),
                     "MC_WalrusBlocks_reclaim2.cfg": ("OpBatchFail", "OpReopenNew")},
        "max_behaviours": 4000, "simulate": None, "timeout": 3000,
    },
    "thorough": {
        "mc": ["MC_WalrusBlocks_thorough.cfg", "MC_WalrusBlocks_wide.cfg", "MC_WalrusBlocks_two.cfg"],
        "gen": "MC_WalrusBlocks_quick.cfg",
        "gen_extra": ["MC_WalrusBlocks_wide.cfg", "MC_WalrusBlocks_two.cfg"],
        "gen_keep": {"MC_WalrusBlocks_two.cfg": 120000},
        "defects": ["MC_WalrusBlocks_defect_parser.cfg", "MC_WalrusBlocks_defect_budget0.cfg",
                    "MC_WalrusBlocks_defect_tailinit.cfg"],
        "known": [],
        "max_behaviours": 10000, "simulate": ("MC_WalrusBlocks_sim.cfg", "num=15", "18"), "timeout": 3000,
    },
}


def _spec(name):
    return os.path.join(C.SPEC, name)


def _unescape(s):
    return s.encode().decode("unicode_escape")


def spec_hash(cfgs):
    return C.hash_files([_spec(MODULE)] + [_spec(d) for d in DEPS] + [_spec(c) for c in cfgs])


def _cache(name):
    return os.path.join(C.ensure_dir(os.path.join(C.BUILD, "cache")), name)


# ------------------------------------------------------------------------------------------------
# TLC runs of the design model

def run_mc(cfg, expect="ok", simulate=None, timeout=1500, use_cache=True, optional=OPTIONAL_ACTIONS_STD):
    """Model-checks (or simulates) one configuration of MC_WalrusBlocks.
    expect="ok": no error; every action of Next fires (-coverage 1), else ToolError.
    expect="violation": RefinesCex must be violated and a CEX line printed (the counterexample behaviour).
    Returns {"cfg", "states", "transitions", "wall_s", "coverage", "paths", "hist_file" | "cex"}."""
    tag = re.sub(r"\W", "_", cfg[:-4]) + ("_sim_%s_%s" % (re.sub(r"\W", "", simulate[0]), simulate[1]) if simulate else "")
    key = spec_hash([cfg])
    meta = _cache("wb_%s_%s.json" % (tag, key))
    histf = _cache("wb_%s_%s.hist.ndjson.gz" % (tag, key))
    if use_cache and os.path.exists(meta):
        with open(meta) as f:
            res = json.load(f)
        if not res.get("hist_file") or os.path.exists(res["hist_file"]):
            return res
    with C.FileLock(os.path.join(C.BUILD, "tlc-wb-%s.lock" % tag)):
        if use_cache and os.path.exists(meta):
            with open(meta) as f:
                return json.load(f)
        wd = os.path.join(C.BUILD, "runs", "wb_%s_%d" % (tag, os.getpid()))
        if simulate:
            extra = ["-simulate", simulate[0], "-depth", simulate[1], "-seed", str(C.seed())]
        else:
            extra = ["-coverage", "1"]
        rc, out, wall = C.tlc(_spec(MODULE), _spec(cfg), wd, workers=WORKERS, extra=extra, timeout=timeout, heap="8g")
        shutil.rmtree(wd, ignore_errors=True)
        gen, dist = C.tlc_stats(out)
        res = {"cfg": cfg, "states": dist, "transitions": gen, "wall_s": round(wall, 1), "simulate": simulate}
        nohist = "\n".join(l for l in out.splitlines() if not l.startswith('<<"HIST"'))
        if expect == "violation":
            cex = re.findall(r'<<"CEX", "(.*)">>', out)
            m = re.search(r"Invariant (\w+) is violated", out)
            if rc == 0 or not cex or not m:
                raise C.ToolError("%s: expected a violation of RefinesCex with a CEX line, got rc=%d:\n%s"
                                  % (cfg, rc, nohist[-3000:]))
            cexs = sorted((json.loads(_unescape(c)) for c in cex), key=lambda s: (len(s["h"]), json.dumps(s["h"])))
            res["violated"] = m.group(1)
            res["cex"] = cexs[0]
            res["cex_all"] = cexs[:8]
        else:
            if simulate:
                # simulation ends by its trace budget (rc 0) or by the outer timeout (rc 124): both fine
                if "Error:" in nohist and "violated" in nohist:
                    raise C.ToolError("%s (simulation): invariant violated:\n%s" % (cfg, nohist[-4000:]))
            elif rc != 0 or "Error:" in nohist or dist == 0:
                raise C.ToolError("%s failed (rc=%d):\n%s" % (cfg, rc, nohist[-4000:]))
            if not simulate:
                cov = {a: v for a, v in C.tlc_coverage(out).items() if a.startswith("Op")}
                if not cov:
                    raise C.ToolError("%s: no -coverage output" % cfg)
                for a, (d, t) in cov.items():
                    if d == 0 and a not in optional:
                        raise C.ToolError("%s: action %s never produced a new state (vacuous)" % (cfg, a))
                res["coverage"] = {a: list(v) for a, v in cov.items()}
            seen = set()
            paths = {}
            req_paths = {}
            n = 0
            with gzip.open(histf, "wt") as f:
                for m in re.finditer(r'<<"HIST", "(.*)">>', out):
                    s = _unescape(m.group(1))
                    if s in seen:
                        continue
                    seen.add(s)
                    js = json.loads(s)
                    paths[js["last"]] = paths.get(js["last"], 0) + 1
                    if js.get("rq"):
                        req_paths[js["last"]] = req_paths.get(js["last"], 0) + 1
                    f.write(s + "\n")
                    n += 1
            res["histories"] = n
            res["paths"] = paths
            res["request_paths"] = req_paths     # code paths of the operations that raised a reclamation request
            res["hist_file"] = histf if n else None
            if not n and os.path.exists(histf):
                os.remove(histf)
        with open(meta, "w") as f:
            json.dump(res, f)
        return res


def load_histories(res, max_keep=None):
    """Histories printed by a run; with max_keep a seeded random subset (only for runs that print leaves
    only, where no history is needed as the prefix of another)."""
    out = []
    n = res.get("histories") or 0
    r = random.Random("wb-load/%d" % C.seed())
    p = 1.0 if not max_keep or n <= max_keep else float(max_keep) / n
    if res.get("hist_file"):
        with gzip.open(res["hist_file"], "rt") as f:
            for line in f:
                if p >= 1.0 or r.random() < p:
                    out.append(json.loads(line))
    return out


def check_paths(paths, cfg):
    missing = [p for p in REQUIRED_PATHS if not any(k == p or k.startswith(p + "_") or k == "append_" + p for k in paths)]
    missing += [p for p in REQUIRED_PATH_PATTERNS if not any(re.search(p, k) for k in paths)]
    if missing:
        raise C.ToolError("%s: the design model never took these code paths (vacuous generation): %s" % (cfg, missing))


def check_reclaim_paths(res, cfg):
    """Vacuity guard of the reclamation configurations: the request step must have been taken (TLC's own
    action count) and requests must have been raised on the read_next and on the batch-read paths."""
    cov = res.get("coverage") or {}
    if not cov.get("OpReclaim") or cov["OpReclaim"][0] == 0:
        raise C.ToolError("%s: the reclamation request step OpReclaim was never taken (vacuous)" % cfg)
    paths, rp = res.get("paths") or {}, res.get("request_paths") or {}
    missing = [p for p in RECLAIM_REQUIRED_PATHS if p not in paths]
    missing += ["request:" + p for p in RECLAIM_REQUEST_PATTERNS if not any(re.search(p, k) for k in rp)]
    if missing:
        raise C.ToolError("%s: the design model never took these code paths / never raised a reclamation request "
                          "on these paths (vacuous generation): %s" % (cfg, missing))


# ------------------------------------------------------------------------------------------------
# histories -> behaviours

def hkey(ops):
    return json.dumps(ops, sort_keys=True)


def expand_ops(ops):
    """Model operations -> driver operations (a failed batch = fault plan + batch + clear)."""
    out, owner = [], []   # owner[i] = index of the model op that driver op i belongs to
    for k, o in enumerate(ops):
        o = dict(o)
        if "flush_nth" in o:
            nth = o.pop("flush_nth")
            out.append({"op": "fault", "site": "flush", "nth": nth, "bad": True})
            owner.append(k)
            out.append(o)
            owner.append(k)
            out.append({"op": "clear_fault", "bad": True})
            owner.append(k)
        else:
            out.append(o)
            owner.append(k)
    return out, owner


def drain_ops(topics, reopen_first, marking=False):
    """Tail of every replayed behaviour (beyond the model's horizon; decided by the contract only).
    marking: drain block by block (budget 0 = one sealed range per call), so that the reader walks past
    every block end and the engine raises the reclamation requests of the drained files."""
    tail = []
    for t in topics:   # probe: the projection before these peeks is the design's final state
        tail.append({"op": "read", "t": t, "ckpt": False, "probe": True})
    if reopen_first:
        tail.append({"op": "reopen", "i": 0, "proc": "same", "ro": True, "tailop": True})
    for t in topics:
        if marking:
            for _ in range(10):
                tail.append({"op": "bread", "t": t, "budget": 0, "ckpt": True, "off": -1, "tailop": True})
        for _ in range(3):
            tail.append({"op": "bread", "t": t, "budget": -1, "ckpt": True, "off": -1, "tailop": True})
        tail.append({"op": "read", "t": t, "ckpt": True, "tailop": True})
    return tail


class Histories:
    """All printed (prefix-closed) histories of one or several TLC runs."""

    def __init__(self):
        self.by_key = {}

    def add(self, summaries):
        for s in summaries:
            self.by_key.setdefault((s["mode"], s["pe"], hkey(s["h"])), s)

    def get(self, mode, pe, ops):
        return self.by_key.get((mode, pe, hkey(ops)))

    def maximal(self):
        parents = set()
        for (mode, pe, k), s in self.by_key.items():
            if s["h"]:
                parents.add((mode, pe, hkey(s["h"][:-1])))
        return [s for key, s in sorted(self.by_key.items()) if key not in parents]

    def label_path(self, s):
        labs = []
        for k in range(1, len(s["h"]) + 1):
            p = self.get(s["mode"], s["pe"], s["h"][:k])
            labs.append(p["last"] if p else "?")
        return tuple(labs)


def select(hist, cap, seed, prefer_requests=False):
    """Maximal histories, at most `cap`. Stratified: the histories are grouped by (mode, code path of the
    last operation, code path of the operation before it) and the groups are served round-robin (seeded
    shuffle inside a group), so that rare code paths get the same share as common ones.
    prefer_requests (reclamation configurations): every history whose last operation raised a reclamation
    request is a behaviour of its own, also when longer histories extend it, and all of them are taken
    first (they are few); the stratified selection fills the rest of the cap."""
    mx = hist.maximal()
    first = []
    if prefer_requests:
        first = [s for key, s in sorted(hist.by_key.items()) if s.get("rq")]
        keys = set((s["mode"], s["pe"], hkey(s["h"])) for s in first)
        mx = [s for s in mx if (s["mode"], s["pe"], hkey(s["h"])) not in keys]
        if len(first) > cap:
            r0 = random.Random("wb-select-req/%d" % seed)
            r0.shuffle(first)
            first = first[:cap]
    n_all = len(first) + len(mx)
    cap_rest = cap - len(first)
    if len(mx) <= cap_rest:
        return first + mx, n_all
    r = random.Random("wb-select/%d" % seed)
    groups = {}
    for s in mx:
        lp = hist.label_path(s)
        groups.setdefault((s["mode"], s["pe"]) + tuple(lp[-2:]), []).append(s)
    keys = sorted(groups)
    for k in keys:
        r.shuffle(groups[k])
    chosen, i = [], 0
    while len(chosen) < cap_rest:
        progressed = False
        for k in keys:
            if i < len(groups[k]):
                chosen.append(groups[k][i])
                progressed = True
                if len(chosen) >= cap_rest:
                    break
        if not progressed:
            break
        i += 1
    return first + chosen, n_all


def to_behaviours(selected, topics_of=None, marking=False):
    """Each selected history -> behaviours for fd and mmap, each with two tails (drain; reopen + drain).
    marking: block-by-block drains (see drain_ops) - for StrictlyAtOnce behaviours only: in AtLeastOnce mode
    such a drain runs straight into the recorded finding KF-ENG-ALO-RECLAIM-NOT-DURABLE (batch reads never
    persist), the avoidance guard of the generator side."""
    behs, meta = [], {}
    for n, s in enumerate(selected):
        ops, owner = expand_ops(s["h"])
        topics = sorted(s["fin"].keys())
        for be in ("fd", "mmap"):
            for tail in ("d", "rd"):
                bid = "wb%d_%s_%s" % (n, be, tail)
                b = {"id": bid, "cfg": {"backend": be, "mode": s["mode"], "pe": s["pe"], "proj": True, "topics": topics},
                     "ops": ops + drain_ops(topics, tail == "rd", marking and s["mode"] == "strict")}
                behs.append(b)
                meta[bid] = {"summary": s, "owner": owner, "n_model_ops": len(ops)}
    return behs, meta


# ------------------------------------------------------------------------------------------------
# drift: the engine's projection before every call vs the design's state

def norm_proj(p):
    return {k: p.get(k) for k in PROJ_FIELDS}


def expected_before(hist, s, k, t):
    """Design projection of topic t (plus the per-file tracker state) before model op k (0-based) of summary s."""
    if k == 0:
        return dict(INIT_PROJ, fs=INIT_FS)
    p = hist.get(s["mode"], s["pe"], s["h"][:k])
    if p is None:
        return None
    return expected_final(p, t)


def expected_final(p, t):
    e = p["fin"].get(t)
    if e is None:
        return None
    return dict(e, fs=p.get("fs"))


def norm_requests(reqs):
    """Multiset of reclamation requests: (file ordinal, sorted entries stored in the file)."""
    return sorted((int(r[0]), sorted((str(x[0]), int(x[1])) for x in r[1])) for r in reqs)


def compare_trace(hist, beh, m, events):
    """Returns (compared, [drift records]) for one trace: the projection before every call (reader, writer,
    index, per-file reclamation counters), the counts after it and the reclamation requests it raised."""
    s, owner = m["summary"], m["owner"]
    drifts, compared = [], 0
    evs = [e for e in events if e.get("ev") in ("append", "batch", "read", "bread", "reopen", "counts", "reclaim")]
    ei = 0
    ops = beh["ops"]
    nmodel = len(s["h"])
    probes = 0
    for di, op in enumerate(ops):
        kind = op["op"]
        if kind in ("fault", "clear_fault"):
            continue
        while ei < len(evs) and evs[ei]["ev"] != kind:
            ei += 1
        if ei >= len(evs):
            break
        e = evs[ei]
        ei += 1
        if op.get("tailop"):
            break
        fields = PROJ_FIELDS
        if op.get("probe"):
            exp = expected_final(s, op["t"])
            k = nmodel
            probes += 1
            if probes > 1:   # an earlier probe (a peek) may itself have marked blocks: the trackers are shared
                fields = tuple(f for f in PROJ_FIELDS if f != "fs")
        else:
            k = owner[di]
            exp = expected_before(hist, s, k, op.get("t")) if kind != "reopen" else None
        if exp is not None and "proj" in e:
            compared += 1
            got = {f: e["proj"].get(f) for f in fields}
            want = {f: exp.get(f) for f in fields}
            if want.get("fs") is None:      # summaries of older runs
                got.pop("fs", None)
                want.pop("fs", None)
            if got != want:
                diff = {f: {"engine": got[f], "design": want[f]} for f in got if got[f] != want[f]}
                drifts.append({"beh": beh["id"], "op_index": k, "op": {x: y for x, y in op.items() if x != "probe"},
                               "kind": "projection", "diff": diff})
                break
        # reclamation requests raised by the call (a failed batch = fault + batch + clear_fault: the batch)
        reqs = []
        while ei < len(evs) and evs[ei]["ev"] == "reclaim":
            reqs.append((evs[ei].get("fo", 0), evs[ei].get("stored", [])))
            ei += 1
        if not op.get("probe"):
            after = hist.get(s["mode"], s["pe"], s["h"][:k + 1])
            if after is not None and "rq" in after:
                compared += 1
                got = norm_requests(reqs)
                want = norm_requests([(r["f"], r["st"]) for r in after["rq"]])
                if got != want:
                    drifts.append({"beh": beh["id"], "op_index": k, "op": op, "kind": "reclaim_requests",
                                   "diff": {"requests": {"engine": got, "design": want}}})
                    break
        # counts after the call
        if not op.get("probe") and ei < len(evs) and evs[ei]["ev"] == "counts" and kind != "reopen":
            after = hist.get(s["mode"], s["pe"], s["h"][:k + 1])
            if after is not None:
                compared += 1
                for t, n in evs[ei]["n"].items():
                    if t in after["fin"] and after["fin"][t]["n"] != n:
                        drifts.append({"beh": beh["id"], "op_index": k, "op": op, "kind": "count",
                                       "diff": {"n": {"engine": n, "design": after["fin"][t]["n"], "t": t}}})
                        break
                if drifts:
                    break
    return compared, drifts


# ------------------------------------------------------------------------------------------------
# the pipeline

_MEMO = {}

READ_KINDS = ("spurious_empty", "redelivered", "extra", "skipped", "skipped_inside", "reordered_or_dup",
              "illegal_result", "read_err", "read_panic", "read_foreign", "hang", "died")


def own_c01(d):
    return d["ev"] in ("read", "bread", "hang", "died") and d["kind"] in READ_KINDS and d.get("off", -1) < 0


def own_c03(d):
    return d["ev"] == "bread" and d["kind"] in ("over_cap", "over_budget", "spurious_empty", "read_panic", "hang")


def own_c15(d):
    return d["ev"] == "counts"


def own_c12(d):
    """A rejected reclamation request, or a read/count/reopen that goes wrong after the engine handed a file
    to the deleter (same attribution as the random-profile half of C12)."""
    return d["ev"] == "reclaim" or (d.get("after_reclaim") and d["ev"] in ("read", "bread", "counts", "reopen"))


def tierdef(tier):
    return TIERS.get(tier, TIERS["quick"])


def regression_behaviours(tierdef, use_cache=True):
    """Counterexamples of the defect configurations (the engine has those defects repaired: they must be
    accepted) as behaviours. Also the vacuity guard that the model can express such defects at all.
    Counterexamples of the `known` configurations (recorded, open findings: TLC must find them in the model of
    the code as it is) are returned separately: the engine is expected to show the finding on them."""
    out, known, info = [], [], {}
    for cfg in tierdef["defects"] + tierdef["known"]:
        res = run_mc(cfg, expect="violation", timeout=900, use_cache=use_cache)
        info[cfg] = {"states": res["states"], "transitions": res["transitions"], "violated": res["violated"],
                     "clause": res["cex"]["v"], "ops": len(res["cex"]["h"]), "wall_s": res["wall_s"],
                     "mode": res["cex"]["mode"], "pe": res["cex"]["pe"], "behaviour": summarize(res["cex"])["ops"]}
        if tierdef.get("flavour") == "reclaim" and not str(res["cex"]["v"]).startswith("C12"):
            raise C.ToolError("%s: expected a C12 counterexample, TLC found: %s" % (cfg, res["cex"]["v"]))
        if cfg in tierdef["defects"]:
            out.append((cfg, res["cex"]))
        else:
            known.append((cfg, res["cex"]))
    return out, known, info


def blocks_pipeline(tier, use_cache=True, engine_bin_env=None, max_behaviours=None, tag=None):
    """MC (cached by spec hash) -> behaviours -> real engine (fd, mmap) -> contract validation -> drift.
    tier: quick | thorough (C01/C03/C06/C15: reclaim events dropped before validation) or
    reclaim_quick | reclaim_thorough (C12: reclaim events kept and decided by the contract)."""
    memo_key = (tier, engine_bin_env, max_behaviours)
    if use_cache and memo_key in _MEMO:
        return _MEMO[memo_key]
    td = tierdef(tier)
    reclaim = td.get("flavour") == "reclaim"
    tag = tag or ("wbr" if reclaim else "wb")
    drop = () if reclaim else ("reclaim",)
    cfgs = td["mc"] + [td["gen"]] + td.get("gen_extra", []) + td["defects"] + td["known"] + ([td["simulate"][0]] if td["simulate"] else [])
    disk = _cache("wb_pipe_%s_%s_%s_%d_%s.json" % (tier, spec_hash(sorted(set(cfgs))), C.engine_src_hash(), C.seed(),
                                                   max_behaviours or td["max_behaviours"]))
    if use_cache and engine_bin_env is None and os.path.exists(disk):
        with open(disk) as f:
            res = json.load(f)
        _MEMO[memo_key] = res
        return res
    t0 = time.time()
    opt = td.get("optional", {})

    def mc(cfg):
        return run_mc(cfg, timeout=td["timeout"], use_cache=use_cache,
                      optional=tuple(opt[cfg]) if cfg in opt else OPTIONAL_ACTIONS_STD)
    # 1. model checking: refinement + invariants, coverage
    mcs = {}
    for cfg in td["mc"]:
        mcs[cfg] = mc(cfg)
    gen_res = mc(td["gen"])
    mcs[td["gen"]] = gen_res
    if reclaim:
        check_reclaim_paths(gen_res, td["gen"])
    else:
        check_paths(gen_res["paths"], td["gen"])
    hist = Histories()
    hist.add(load_histories(gen_res))
    for cfg in td.get("gen_extra", []):
        r = mc(cfg)
        mcs[cfg] = r
        if reclaim and not (r.get("coverage") or {}).get("OpReclaim", [0])[0]:
            raise C.ToolError("%s: the reclamation request step OpReclaim was never taken (vacuous)" % cfg)
        hist.add(load_histories(r, td.get("gen_keep", {}).get(cfg)))
    sim_info = None
    if td["simulate"]:
        scfg, num, depth = td["simulate"]
        sres = run_mc(scfg, simulate=(num, depth), timeout=900, use_cache=use_cache)
        hist.add(load_histories(sres))
        sim_info = {"cfg": scfg, "num": num, "depth": depth, "histories": sres.get("histories", 0), "wall_s": sres["wall_s"]}
    regress, known_cex, defect_info = regression_behaviours(td, use_cache=use_cache)
    # (the counterexamples are behaviours of the *defect* configurations: replayed for the contract only)
    # 2. behaviours
    cap = max_behaviours or td["max_behaviours"]
    selected, n_max = select(hist, cap, C.seed(), prefer_requests=reclaim)
    behs, meta = to_behaviours(selected, marking=reclaim)
    reg_behs, known_behs = [], []
    for cfg, cex in regress:
        ops, _ = expand_ops(cex["h"])
        topics = sorted(cex["fin"].keys())
        for be in ("fd", "mmap"):
            reg_behs.append({"id": "wbreg_%s_%s" % (cfg[len("MC_WalrusBlocks_"):-4], be),
                             "cfg": {"backend": be, "mode": cex["mode"], "pe": cex["pe"], "proj": True, "topics": topics},
                             "ops": ops + drain_ops(topics, False)})
    for cfg, cex in known_cex:
        ops, _ = expand_ops(cex["h"])
        topics = sorted(cex["fin"].keys())
        for be in ("fd", "mmap"):
            known_behs.append({"id": "wbknown_%s_%s" % (cfg[len("MC_WalrusBlocks_"):-4], be),
                               "cfg": {"backend": be, "mode": cex["mode"], "pe": cex["pe"], "proj": True, "topics": topics},
                               "ops": ops + drain_ops(topics, False), "_cfg": cfg, "_model_clause": cex["v"]})
    # committed regression behaviours (counterexamples of earlier model/engine versions)
    if not reclaim:
        for path in sorted(glob.glob(os.path.join(C.VERIF, "corpus", "blocks_*.ndjson"))):
            with open(path) as f:
                for line in f:
                    line = line.strip()
                    if line and not line.startswith("#"):
                        b = json.loads(line)
                        reg_behs.append({"id": "corpus_" + b["id"], "cfg": b["cfg"], "ops": b["ops"]})
    # 3. the real engine
    all_behs = behs + reg_behs + known_behs
    run_behs = [{k: v for k, v in b.items() if not k.startswith("_")} for b in all_behs]
    if engine_bin_env:
        traces = run_with_binary(run_behs, engine_bin_env, tag)
    else:
        traces = E.run_behaviours(run_behs, "tiny", tag=tag)
    missing = [b["id"] for b in all_behs if b["id"] not in traces]
    if missing:
        raise C.ToolError("%d behaviours produced no trace (driver failure), e.g. %s" % (len(missing), missing[:3]))
    # 4. the contract decides
    verd, vstats = E.validate(traces, tag=tag + "v", drop=drop)
    ftraces = {g: [e for e in evs if e.get("ev") not in drop] for g, evs in traces.items()}
    byid = {b["id"]: b for b in run_behs}
    # diagnosis order: StrictlyAtOnce first (no recorded finding can explain a rejection there), then the
    # counterexamples of the `known` configurations, then the rest
    failed = sorted((g for g in verd if not verd[g]["ok"]),
                    key=lambda g: (byid[g]["cfg"]["mode"] != "strict", not g.startswith("wbknown_"), g))
    findings = C.load_findings()
    fails = []
    twins_needed = []
    for g in failed[:60]:
        v = verd[g]
        states = E.contract_state_at(ftraces[g], v["index"])
        d = E.classify(ftraces[g], v["index"], states)
        d["mode"] = byid[g]["cfg"]["mode"]
        d["backend"] = byid[g]["cfg"]["backend"]
        d["after_reclaim"] = any(x.get("ev") == "reclaim" for x in ftraces[g][:v["index"]])
        fails.append({"beh": g, "div": d, "matched": v["matched"], "index": v["index"],
                      "first_unmatched": {k: x for k, x in v["first_unmatched"].items() if k != "proj"},
                      "proj_before": v["first_unmatched"].get("proj"), "states": states[:2]})
        if d.get("after_reopen") and not reclaim:
            twins_needed.append(g)
    twin_ok = {}
    if twins_needed:
        twins = [G.strip_ops(byid[g], "ro", "~tw") for g in twins_needed]
        if engine_bin_env:
            ttr = run_with_binary(twins, engine_bin_env, tag + "tw")
        else:
            ttr = E.run_behaviours(twins, "tiny", tag=tag + "tw")
        tverd, _ = E.validate(ttr, tag=tag + "twv", drop=drop)
        for g in twins_needed:
            twin_ok[g] = bool(tverd.get(g + "~tw", {}).get("ok"))
    for f in fails:
        g = f["beh"]
        d = f["div"]
        owners = []
        if reclaim:
            if own_c12(d):
                owners.append("C12")
        else:
            if g in twin_ok and twin_ok[g]:
                owners.append("C06")
            if own_c01(d):
                owners.append("C01")
            if own_c03(d):
                owners.append("C03")
            if own_c15(d):
                owners.append("C15")
        f["owners"] = owners
        f["known"] = {}
        for pid in owners:
            kf = C.match_finding(findings, pid, d)
            if kf is not None:
                f["known"][pid] = {"id": kf["id"], "what_fails": kf["what_fails"]}
        f["behaviour"] = byid[g]
    # 4b. the counterexamples of the `known` configurations: the engine is expected to show the recorded finding
    known_replay = []
    for b in known_behs:
        g = b["id"]
        rec = {"beh": g, "cfg": b["_cfg"], "model_clause": b["_model_clause"], "engine_rejected": not verd[g]["ok"]}
        fl = next((f for f in fails if f["beh"] == g), None)
        if fl is None and not verd[g]["ok"]:
            rec["note"] = "rejected, but beyond the diagnosis limit"
        if fl is not None:
            rec["divergence"] = fl["div"]
            rec["finding"] = (fl["known"].get("C12") or {}).get("id")
        known_replay.append(rec)
    # 5. drift
    compared, drift_items, drift_traces = 0, [], 0
    for b in behs:
        c, dr = compare_trace(hist, b, meta[b["id"]], traces[b["id"]])
        compared += c
        if dr:
            drift_traces += 1
            drift_items.extend(dr[:1])
    drift_classes = {}
    for d in drift_items:
        k = d["kind"] + ":" + ",".join(sorted(d["diff"].keys())) + ":" + d["op"]["op"]
        drift_classes.setdefault(k, {"count": 0, "first": d})
        drift_classes[k]["count"] += 1
    paths_replayed = {}
    for s in selected:
        for lab in hist.label_path(s):
            paths_replayed[lab] = paths_replayed.get(lab, 0) + 1
    main_mc = mcs[td["mc"][0]]
    body = set(b["id"] for b in behs)
    res = {
        "tier": tier,
        "mc": {c: {k: v for k, v in r.items() if k not in ("hist_file", "cex_all")} for c, r in mcs.items()},
        "states": main_mc["states"], "transitions": main_mc["transitions"],
        "defect_configs": defect_info, "simulation": sim_info,
        "histories_printed": len(hist.by_key), "maximal_histories": n_max, "behaviours_selected": len(selected),
        "behaviours_replayed": len(behs), "regression_behaviours": len(reg_behs), "known_behaviours": len(known_behs),
        "traces": len(traces),
        "trace_events": sum(len(t) for t in traces.values()),
        "trace_tlc_states": vstats["states_distinct"],
        "rejected_traces": len(failed), "failures": fails, "known_replay": known_replay,
        "projection_comparisons": compared, "drift_traces": drift_traces,
        "drift_classes": {k: v for k, v in sorted(drift_classes.items())},
        "paths_model": gen_res["paths"], "paths_replayed": paths_replayed,
        "request_paths_model": gen_res.get("request_paths", {}),
        "request_histories_model": sum(1 for s in hist.by_key.values() if s.get("rq")),
        "request_histories_replayed": sum(1 for s in selected if s.get("rq")),
        "reclaim_events": sum(1 for t in traces.values() for e in t if e.get("ev") == "reclaim"),
        "traces_with_reclaim": sum(1 for g, t in traces.items() if g in body and any(e.get("ev") == "reclaim" for e in t)),
        "samples": [summarize(s) for s in selected[:3]],
        "wall_s": round(time.time() - t0, 1),
    }
    if engine_bin_env is None:
        with open(disk, "w") as f:
            json.dump(res, f)
        _MEMO[memo_key] = res
    return res


def summarize(s):
    ops = []
    for o in s["h"]:
        k = o["op"]
        if k == "append":
            ops.append("append(%s,%d)" % (o["t"], o["size"]))
        elif k == "batch":
            ops.append("batch%s(%s,%s)" % ("!flush" if "flush_nth" in o else "", o["t"], [e[1] for e in o["es"]]))
        elif k == "read":
            ops.append("read(%s,%s)" % (o["t"], "ck" if o["ckpt"] else "peek"))
        elif k == "bread":
            ops.append("bread(%s,b=%s,%s)" % (o["t"], o["budget"], "ck" if o["ckpt"] else "peek"))
        elif k == "reopen":
            ops.append("reopen(%s)" % o.get("proc", "same"))
        else:
            ops.append(k)
    return {"mode": s["mode"], "pe": s["pe"], "ops": ops, "last_path": s["last"]}


def run_with_binary(behs, binp, tag):
    """E.run_behaviours with another engine-driver binary (mutation runs on a scratch copy of the code)."""
    old = C.build_engine
    C.build_engine = lambda geom="tiny": binp
    try:
        return E.run_behaviours(behs, "tiny", tag=tag)
    finally:
        C.build_engine = old


# ------------------------------------------------------------------------------------------------
# per-property views for the existing checks

def _property_view(pid, tier):
    res = blocks_pipeline(tier)
    reclaim = tierdef(tier).get("flavour") == "reclaim"
    lines, violations, known = [], 0, {}
    for f in res["failures"]:
        if pid not in f["owners"]:
            continue
        if pid in f["known"]:
            k = f["known"][pid]
            known.setdefault(k["id"], [k["what_fails"], 0])
            known[k["id"]][1] += 1
            continue
        path = C.save_replay(pid, "%s_blocks_%s_%s" % (pid, f["beh"], f["div"].get("kind")), {
            "property": pid, "geom": "tiny", "behaviour": f["behaviour"], "divergence": f["div"],
            "first_unmatched_event": f["first_unmatched"], "proj_before": f["proj_before"],
            "contract_state_before": f["states"], "matched_events": f["matched"], "source": "WalrusBlocks behaviours"})
        violations += 1
        if violations <= 20:
            lines.append("VIOLATION property=%s replay=%s" % (pid, path))
    for kid, (what, n) in sorted(known.items()):
        lines.append("KNOWN-FINDING: property=%s %s [%s, seen %d time(s)]" % (pid, what, kid, n))
    for k, v in res["drift_classes"].items():
        d = v["first"]
        lines.append("MODEL-DRIFT: %s in %d trace(s); first: behaviour %s op %d %s: %s"
                     % (k, v["count"], d["beh"], d["op_index"], json.dumps(d["op"], sort_keys=True), json.dumps(d["diff"], sort_keys=True)))
    for r in res.get("known_replay", []):
        # the model of the code as it is shows a recorded finding on this behaviour; so should the code
        if not r["engine_rejected"]:
            lines.append("MODEL-DRIFT: known-finding counterexample of %s (%s) is accepted by the contract on the real engine "
                         "(behaviour %s): the design model predicts a violation the code does not show"
                         % (r["cfg"], r["model_clause"], r["beh"]))
        elif r.get("divergence") is not None and not r.get("finding"):
            lines.append("NOTE: the real engine rejects the known-finding counterexample of %s at %s/%s, which no recorded finding matches"
                         % (r["cfg"], r["divergence"].get("ev"), r["divergence"].get("kind")))
    unattributed = sum(1 for f in res["failures"] if not f["owners"])
    undiagnosed = res["rejected_traces"] - len(res["failures"])
    if unattributed:
        lines.append("NOTE: %d rejected WalrusBlocks trace(s) are not attributed to %s (see blocks pipeline summary)"
                     % (unattributed, "C12" if reclaim else "C01/C03/C06/C15"))
    if undiagnosed > 0:
        lines.append("NOTE: %d rejected WalrusBlocks trace(s) beyond the diagnosis limit (all AtLeastOnce or known-finding "
                     "counterexamples unless listed above)" % undiagnosed)
    if reclaim and (res["reclaim_events"] == 0 or res["traces_with_reclaim"] == 0 or res["request_histories_replayed"] == 0):
        raise C.ToolError("C12 design-spec view: no reclamation request was replayed/observed (model request histories replayed=%d, "
                          "engine reclaim events=%d): vacuous" % (res["request_histories_replayed"], res["reclaim_events"]))
    cov = {
        "design_model": "WalrusBlocks",
        "states": res["states"], "transitions": res["transitions"],
        "design_mc": res["mc"], "design_defect_configs": res["defect_configs"], "design_simulation": res["simulation"],
        "design_behaviours_generated": res["maximal_histories"], "design_behaviours_replayed": res["behaviours_selected"],
        "traces_validated_against_impl": res["traces"], "design_trace_events": res["trace_events"],
        "design_rejected_traces": res["rejected_traces"], "design_unattributed": unattributed,
        "design_projection_comparisons": res["projection_comparisons"], "drift": res["drift_traces"],
        "design_drift_classes": {k: v["count"] for k, v in res["drift_classes"].items()},
        "design_action_coverage": res["mc"][tierdef(tier)["mc"][0]].get("coverage"),
        "design_path_coverage": res["paths_model"], "design_paths_replayed": res["paths_replayed"],
        "design_samples": res["samples"],
    }
    if reclaim:
        cov.update({
            "design_request_paths": res["request_paths_model"],
            "design_request_histories": res["request_histories_model"],
            "design_request_histories_replayed": res["request_histories_replayed"],
            "design_reclaim_events_on_engine": res["reclaim_events"],
            "design_traces_with_reclaim": res["traces_with_reclaim"],
            "design_known_finding_replay": [{k: v for k, v in r.items() if k != "divergence"} for r in res["known_replay"]],
            "design_undiagnosed": max(0, undiagnosed),
        })
    return (C.EXIT_VIOLATION if violations else C.EXIT_OK), cov, lines


def c01_blocks(tier):
    return _property_view("C01", tier)


def c03_blocks(tier):
    return _property_view("C03", tier)


def c06_blocks(tier):
    return _property_view("C06", tier)


def c15_blocks(tier):
    return _property_view("C15", tier)


def c12_blocks(tier):
    """C12 through the design model: the reclamation configurations (a file becomes fully allocated, its blocks
    are consumed, requests are raised), reclaim events decided by the contract, per-file counters and requests
    compared with the model's op by op."""
    return _property_view("C12", "reclaim_thorough" if tier == "thorough" else "reclaim_quick")


# ------------------------------------------------------------------------------------------------
# binding self-test

def selftest(tier="quick"):
    """(a) a corrupted expected projection must show as drift; (b) a corrupted operation result must be
    rejected by the contract. Raises ToolError otherwise."""
    td = TIERS["quick"]
    gen_res = run_mc(td["gen"], timeout=td["timeout"])
    hist = Histories()
    hist.add(load_histories(gen_res))
    mx = [s for s in hist.maximal() if any(o["op"] in ("read", "bread") for o in s["h"]) and s["mode"] == "strict"]
    r = random.Random(C.seed())
    # a history whose last read returns something
    cands = [s for s in mx if s["h"][-1]["op"] in ("read", "bread") and s["last"] not in ("rn_nowriter", "rn_tail_caughtup")
             and "none" not in s["last"]]
    s = r.choice(cands[:200] or mx)
    behs, meta = to_behaviours([s])
    behs = [b for b in behs if b["id"].endswith("_fd_d")]
    traces = E.run_behaviours(behs, "tiny", tag="wbself")
    b = behs[0]
    evs = traces[b["id"]]
    c0, d0 = compare_trace(hist, b, meta[b["id"]], evs)
    v0, _ = E.validate({b["id"]: evs}, tag="wbselfv0", drop=("reclaim",))
    out = {"behaviour": summarize(s), "baseline_drift": len(d0), "baseline_accepted": v0[b["id"]]["ok"]}
    # (a) corrupt one expected projection (the design's final state of this history)
    s2 = json.loads(json.dumps(s))
    t = sorted(s2["fin"].keys())[0]
    s2["fin"][t]["co"] += 1
    m2 = dict(meta[b["id"]])
    m2["summary"] = s2
    c1, d1 = compare_trace(hist, b, m2, evs)
    out["corrupted_projection_drift"] = len(d1)
    # (b) corrupt one result: swap in a wrong key in the last non-empty read result
    evs2 = json.loads(json.dumps(evs))
    done = False
    for e in reversed(evs2):
        if e.get("ev") in ("read", "bread") and e.get("res"):
            e["res"][0][0] = e["res"][0][0] + 1000
            done = True
            break
    if not done:
        for e in evs2:
            if e.get("ev") == "counts":
                for k in e["n"]:
                    e["n"][k] += 1
                done = True
                break
    v1, _ = E.validate({b["id"]: evs2}, tag="wbselfv1", drop=("reclaim",))
    out["corrupted_result_accepted"] = v1[b["id"]]["ok"]
    if len(d0) == 0 and len(d1) == 0:
        raise C.ToolError("blocks self-test: a corrupted expected projection produced no drift: %s" % json.dumps(out))
    if not out["baseline_accepted"]:
        raise C.ToolError("blocks self-test: the unmodified trace is rejected: %s" % json.dumps(out))
    if out["corrupted_result_accepted"]:
        raise C.ToolError("blocks self-test: a corrupted result was accepted by the contract: %s" % json.dumps(out))
    out["reclaim"] = selftest_reclaim()
    return out


def selftest_reclaim():
    """Binding of the reclamation part: on a StrictlyAtOnce history whose last operation raises a request,
    (a) the unmodified trace shows no drift and is accepted with its reclaim events, (b) a corrupted expected
    per-file counter shows as drift, (c) a request the model does not predict (expected request removed) shows
    as drift, (d) a request missing on the engine side shows as drift, (e) a reclaim event naming an
    unconsumed entry is rejected by the contract."""
    td = TIERS["reclaim_quick"]
    gen_res = run_mc(td["gen"], timeout=td["timeout"], optional=tuple(td["optional"][td["gen"]]))
    hist = Histories()
    hist.add(load_histories(gen_res))
    cands = [s for key, s in sorted(hist.by_key.items()) if s.get("rq") and s["mode"] == "strict"]
    if not cands:
        raise C.ToolError("blocks self-test (reclaim): no history with a reclamation request")
    s = random.Random(C.seed()).choice(cands)
    behs, meta = to_behaviours([s], marking=True)
    behs = [b for b in behs if b["id"].endswith("_fd_d")]
    traces = E.run_behaviours(behs, "tiny", tag="wbselfr")
    b = behs[0]
    evs = traces[b["id"]]
    nm = len(s["h"])
    c0, d0 = compare_trace(hist, b, meta[b["id"]], evs)
    v0, _ = E.validate({b["id"]: evs}, tag="wbselfrv0", drop=())
    out = {"behaviour": summarize(s), "requests": [r["f"] for r in s["rq"]], "comparisons": c0, "baseline_drift": len(d0),
           "baseline_accepted": v0[b["id"]]["ok"],
           "engine_reclaim_events": sum(1 for e in evs if e.get("ev") == "reclaim")}

    def with_summary(s2):
        h2 = Histories()
        h2.by_key = dict(hist.by_key)
        h2.by_key[(s2["mode"], s2["pe"], hkey(s2["h"]))] = s2
        m2 = dict(meta[b["id"]])
        m2["summary"] = s2
        return compare_trace(h2, b, m2, evs)[1]
    s2 = json.loads(json.dumps(s))
    s2["fs"][0][1] += 1                      # checkpointed counter of the first file
    out["corrupted_counter_drift"] = [d["kind"] for d in with_summary(s2)]
    s3 = json.loads(json.dumps(s))
    s3["rq"] = []                            # the model "forgets" the request
    out["unexpected_request_drift"] = [d["kind"] for d in with_summary(s3)]
    # the engine "forgets" the request: drop the reclaim events of the body
    seen_ops, evs4 = 0, []
    for e in evs:
        if e.get("ev") in ("append", "batch", "read", "bread", "reopen"):
            seen_ops += 1
        if e.get("ev") == "reclaim" and seen_ops <= nm:
            continue
        evs4.append(e)
    out["missing_request_drift"] = [d["kind"] for d in compare_trace(hist, b, meta[b["id"]], evs4)[1]]
    evs5 = json.loads(json.dumps(evs))
    for e in evs5:
        if e.get("ev") == "reclaim":
            e["stored"].append([sorted(s["fin"].keys())[0], 999])
            break
    v5, _ = E.validate({b["id"]: evs5}, tag="wbselfrv5", drop=())
    out["premature_reclaim_accepted"] = v5[b["id"]]["ok"]
    if d0 or not out["baseline_accepted"] or not out["engine_reclaim_events"]:
        raise C.ToolError("blocks self-test (reclaim): baseline not clean: %s %s" % (json.dumps(out), json.dumps(d0)[:1500]))
    if out["corrupted_counter_drift"] != ["projection"] or out["unexpected_request_drift"] != ["reclaim_requests"] \
            or out["missing_request_drift"] != ["reclaim_requests"]:
        raise C.ToolError("blocks self-test (reclaim): a corrupted expectation produced no drift: %s" % json.dumps(out))
    if out["premature_reclaim_accepted"]:
        raise C.ToolError("blocks self-test (reclaim): a reclaim event naming an unconsumed entry was accepted: %s" % json.dumps(out))
    return out


# ------------------------------------------------------------------------------------------------

def main(argv):
    tier = "quick"
    do_self = False
    use_cache = True
    for a in argv:
        if a in TIERS:
            tier = a
        elif a == "selftest":
            do_self = True
        elif a == "--selftest":
            do_self = True
        elif a == "--no-cache":
            use_cache = False
    try:
        if do_self and "selftest" in argv:
            print("self-test: %s" % json.dumps(selftest(tier)))
            return C.EXIT_OK
        res = blocks_pipeline(tier, use_cache=use_cache)
        print("WalrusBlocks pipeline (%s): %.0f s" % (tier, res["wall_s"]))
        for cfg, r in res["mc"].items():
            print("  MC %-40s states=%d transitions=%d wall=%.0fs coverage=%s"
                  % (cfg, r["states"], r["transitions"], r["wall_s"], json.dumps(r.get("coverage"))))
        for cfg, r in res["defect_configs"].items():
            print("  expected violation %-40s %s after %d ops: %s (states=%d)" % (cfg, r["violated"], r["ops"], r["clause"], r["states"]))
        if res["simulation"]:
            print("  simulation %s" % json.dumps(res["simulation"]))
        print("  histories printed=%d maximal=%d selected=%d -> behaviours replayed=%d (+%d regression) traces=%d events=%d"
              % (res["histories_printed"], res["maximal_histories"], res["behaviours_selected"], res["behaviours_replayed"],
                 res["regression_behaviours"], res["traces"], res["trace_events"]))
        print("  contract: rejected traces=%d; projection comparisons=%d, traces with drift=%d"
              % (res["rejected_traces"], res["projection_comparisons"], res["drift_traces"]))
        print("  code paths in the model: %d distinct; replayed: %d distinct" % (len(res["paths_model"]), len(res["paths_replayed"])))
        reclaim = tierdef(tier).get("flavour") == "reclaim"
        if reclaim:
            print("  reclamation: model histories with a request=%d (replayed %d), paths %s; engine reclaim events=%d in %d traces"
                  % (res["request_histories_model"], res["request_histories_replayed"], json.dumps(res["request_paths_model"], sort_keys=True),
                     res["reclaim_events"], res["traces_with_reclaim"]))
            for r in res["known_replay"]:
                print("  known-finding counterexample %s: engine rejected=%s finding=%s" % (r["beh"], r["engine_rejected"], r.get("finding")))
        rc = C.EXIT_OK
        views = ((("C12", lambda t: _property_view("C12", t)),) if reclaim else
                 (("C01", c01_blocks), ("C03", c03_blocks), ("C06", c06_blocks), ("C15", c15_blocks)))
        for pid, fn in views:
            code, cov, lines = fn(tier)
            print("  %s: exit %d" % (pid, code))
            for l in (lines if pid in ("C01", "C12") else [x for x in lines if not x.startswith("MODEL-DRIFT") and not x.startswith("NOTE")]):
                print("    " + l)
            rc = max(rc, code)
        for f in res["failures"]:
            if not f["owners"]:
                print("  UNATTRIBUTED rejection: %s %s" % (f["beh"], json.dumps(f["div"])))
        if do_self:
            print("  self-test: %s" % json.dumps(selftest(tier)))
        return rc
    except C.ToolError as e:
        print("TOOL ERROR: %s" % e)
        return C.EXIT_TOOL


if __name__ == "__main__":
    sys.exit(main(sys.argv[1:]))
