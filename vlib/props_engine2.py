"""Engine checks with restarts, rejections, markers, reclamation and several instances
(C04, C06, C12, C13, C17)."""
import json
import random
import time

from . import common as C
from . import engine as E
from . import gen as G
from . import props_engine as PE


def c04(tier):
    def own(d):
        return True   # blamed only if the twin execution without the failing calls is accepted
    return PE.generic("C04", tier, profiles=["reject"], own=own, twin_flag="bad", n_quick=500, n_thorough=5000,
                      extra_assumptions=[
                          "blame rule: a rejected execution counts against C04 only if the same execution without its "
                          "rejected/failed appends (and without the injected faults) is accepted",
                          "I/O failures are injected through the cfg(walrus_verif) fault seams: failed/short io_uring "
                          "completions, failed block write, failed fsync, failed file creation; submission failure of the "
                          "ring itself is not injectable without rewriting code",
                          "concurrent visibility of partial batches is C05's check"])


def c06(tier):
    def own(d):
        return True   # blamed only if the twin execution without the reopen events is accepted
    return PE.generic("C06", tier, profiles=["restart"], own=own, twin_flag="ro", n_quick=500, n_thorough=4000, blocks_view="c06_blocks",
                      extra_assumptions=[
                          "blame rule: a rejected execution counts against C06 only if the same execution without its "
                          "reopen events is accepted (restart invisible)",
                          "clean shutdown = dropping the instance; reopen in the same process and in a fresh process "
                          "(with the wall clock moved forward, by 0 and backward through the cfg(walrus_verif) clock hook)",
                          "the former known finding about block-id based tail positions is fixed; its reproducer stays in corpus/ as a regression case"])


def c17(tier):
    def own(d):
        return d["ev"] == "is_clean"
    from . import props_marker as PM
    return PE.generic("C17", tier, profiles=["marker", "restart", "latep"], own=own, n_quick=540, n_thorough=4000,
                      extra_stage=PM.stage,
                      extra_assumptions=["reopen happens at delays 0, 1 and 20 ms after the last call, in the same and in a new process",
                                         "profile latep holds the marker persister thread of an instance at the cfg gate tc_before_persist "
                                         "across a clean shutdown and a successor instance (the schedule behind repaired defect "
                                         "'late persister of a dropped instance')",
                                         "MarkerStore stage: one sequential client, successive instances in one process, clean shutdowns only; "
                                         "the replay controls WHEN a parked persister writes (gates tc_before_persist / tc_after_persist), not "
                                         "when it wakes: only prompt-snapshot schedules are replayed, torn snapshots are covered by TLC alone",
                                         "the marker file is decoded by the harness with a struct of the same rkyv layout as the engine's "
                                         "private CleanMarkerRecord"])


def _c12_corpus(n, seed, cfgs):
    return G.corpus("reclaim", "tiny", n, seed, cfgs=cfgs, prefix="rc_", length=(25, 60))


def c12(tier):
    """Reclamation requests (the cfg(walrus_verif) `reclaim_requested` event raised where the engine
    hands a file to the deleter) are checked against the contract's Reclaim action: every
    acknowledged entry stored in the file must be durably consumed."""
    ck = PE.EngineCheck("C12", tier)
    mc = PE.contract_mc(tier)
    n = 600 if tier == "thorough" else 160
    cfgs = [{"backend": "fd", "mode": "strict", "pe": 1}, {"backend": "mmap", "mode": "strict", "pe": 1},
            {"backend": "fd", "mode": "strict", "pe": 1}, {"backend": "fd", "mode": "alo", "pe": 2}]
    behs = PE.load_corpus_files("C12") + _c12_corpus(n, C.seed(), cfgs) + G.corpus("oreclaim", "tiny", max(20, n // 8), C.seed(), cfgs=cfgs, prefix="orc_") \
        + G.corpus("freclaim", "tiny", max(16, n // 10), C.seed(), cfgs=cfgs, prefix="frc_")
    # one behaviour per process: the block/file trackers are process-global and keyed by block id
    traces, verd, stats = ck.run_and_validate(behs, "tiny", chunk=1, drop=())
    byid = {b["id"]: b for b in behs}
    reclaims = sum(1 for t in traces.values() for e in t if e.get("ev") == "reclaim")
    with_reclaim = sum(1 for t in traces.values() if any(e.get("ev") == "reclaim" for e in t))
    failed = [g for g in verd if not verd[g]["ok"]]
    diag = 0
    for g in failed:
        if diag >= PE.MAX_DIAG and len(ck.violations) >= 3:
            ck.unattributed += 1
            continue
        diag += 1
        div, states = ck.diagnose(byid[g], traces[g], verd[g])
        seen_reclaim = any(e.get("ev") == "reclaim" for e in traces[g][:verd[g]["index"] + 1])
        if div["ev"] == "reclaim" or (seen_reclaim and div["ev"] in ("read", "bread", "counts", "reopen")):
            ck.report(byid[g], traces[g], verd[g], div, states)
        else:
            ck.unattributed += 1
    if reclaims == 0:
        raise C.ToolError("C12: no reclamation request was observed in %d behaviours (vacuous)" % len(behs))
    unlink_cov = {}
    if tier == "thorough":
        unlink_cov = _c12_real_unlink(ck)
    coverage = {
        "states": mc["states"], "transitions": mc["transitions"],
        "traces_validated_against_impl": len(traces),
        "samples": [PE.summarize_behaviour(b, 20) for b in behs[:2]],
        "evaluations": len(traces), "distinct_nontrivial": with_reclaim,
        "rule": "histories over 1-3 topics whose entries fill whole blocks (tiny geometry: 4 blocks per file) mixed with "
                "consuming reads, peeks, repeated empty polls and in-process reopens, one history per process; "
                "non-trivial = histories in which the engine raised at least one reclamation request; each request is "
                "checked by TLC against WalrusAPI.Reclaim (every acknowledged entry stored in that file durably consumed)",
        "reclaim_requests_checked": reclaims, "contract_model": mc, "trace_tlc_states": stats["states_distinct"],
        "rejected_traces": len(failed),
    }
    coverage.update(unlink_cov)
    coverage = ck.merge_blocks("c12_blocks", coverage, rule=(
        " PLUS the design model WalrusBlocks with the reclamation bookkeeping (per-file locked/checkpointed/total/"
        "fully-allocated counters, per-block checkpoint flags, flush_check; tiny geometry) checked by TLC to refine "
        "WalrusAPI including Reclaim(stored) for every request the design raises (StrictlyAtOnce, and AtLeastOnce under the "
        "named avoidance guard of the open finding; TLC is required to find that finding without the guard and to find a C12 "
        "violation with the historical defect 'checkpoint counted on every report' switched on); the configurations make a "
        "file fully allocated, consume it and raise requests (the request step must fire, -coverage 1); every history with a "
        "request and a stratified selection of the others are replayed on the real engine (fd, mmap; block-by-block drain and "
        "reopen+drain tails) with the reclaim events decided by the contract, and the engine's per-file counters before every "
        "call and the requests after it (file ordinal + stored entries) are compared with the model's (MODEL-DRIFT, never a violation)."))
    return ck.finish("model_checking", coverage, PE.COMMON_ASSUMPTIONS + [
        "the reclaim_requested event is raised at the only place where the engine sends a file to the deletion channel",
        "quick tier does not wait for the real unlink (1000 background ticks); thorough does, at Milliseconds(1)"])


def _c12_real_unlink(ck):
    """Thorough: let the background thread really delete (fsync schedule 1 ms => ~1.2 s per cycle),
    then read everything and reopen."""
    r = random.Random(C.seed())
    behs = []
    for i in range(24):
        b = G.gen_behaviour(r, "reclaim", "tiny", "ul_%d" % i, {"backend": "fd", "mode": "strict", "pe": 1, "fsync": "ms1"},
                            length=40)
        # wait for a deletion cycle before the final drain, then reopen and drain again
        tail = [{"op": "sleep", "ms": 1600}]
        for t in b["cfg"]["topics"]:
            tail += [{"op": "bread", "t": t, "budget": -1, "ckpt": True, "off": -1}] * 3
        tail += [{"op": "reopen", "i": 0, "proc": "same"}]
        for t in b["cfg"]["topics"]:
            tail += [{"op": "bread", "t": t, "budget": -1, "ckpt": True, "off": -1}] * 2
        b["ops"] = b["ops"] + tail
        behs.append(b)
    traces, verd, stats = ck.run_and_validate(behs, "tiny", chunk=1, drop=())
    byid = {b["id"]: b for b in behs}
    for g in [g for g in verd if not verd[g]["ok"]]:
        div, states = ck.diagnose(byid[g], traces[g], verd[g])
        ck.report(byid[g], traces[g], verd[g], div, states)
    return {"real_unlink_histories": len(behs)}


def c13(tier):
    ck = PE.EngineCheck("C13", tier)
    mc = PE.contract_mc(tier)
    n = 1200 if tier == "thorough" else 150
    r = random.Random("c13/%d" % C.seed())
    cfgs = [{"backend": "fd", "mode": "strict", "pe": 1}, {"backend": "mmap", "mode": "strict", "pe": 1}]
    behs = PE.load_corpus_files("C13")
    for i in range(n):
        behs.append(G.multi_instance(r, "tiny", "mi_%d" % i, cfgs[i % 2], n_inst=r.choice([2, 2, 3])))
    traces, verd, stats = ck.run_and_validate(behs, "tiny", chunk=1, drop=())
    byid = {b["id"]: b for b in behs}
    failed = [g for g in verd if not verd[g]["ok"]]
    diag = 0
    for g in failed:
        if diag >= PE.MAX_DIAG and len(ck.violations) >= 3:
            ck.unattributed += 1
            continue
        diag += 1
        div, states = ck.diagnose(byid[g], traces[g], verd[g])
        ck.report(byid[g], traces[g], verd[g], div, states)
    reclaims = sum(1 for t in traces.values() for e in t if e.get("ev") == "reclaim")
    coverage = {
        "states": mc["states"], "transitions": mc["transitions"],
        "traces_validated_against_impl": len(traces),
        "samples": [{"insts": b["cfg"]["insts"], **PE.summarize_behaviour(b, 16)} for b in behs[:2]],
        "evaluations": len(traces), "distinct_nontrivial": len(set(PE.op_signature(b) for b in behs)),
        "rule": "2-3 live instances in one process (distinct keys in one data dir, distinct data dirs, or both), "
                "interleaved appends/reads/marks/reopens with block-filling entries so that per-instance block ids "
                "collide and files fill; every instance is validated against its own copy of the contract (topics are "
                "(instance, name) pairs), including the reclamation requests raised for its files",
        "reclaim_requests_checked": reclaims, "contract_model": mc, "trace_tlc_states": stats["states_distinct"],
        "rejected_traces": len(failed),
    }
    return ck.finish("model_checking", coverage, PE.COMMON_ASSUMPTIONS + [
        "isolation is observed through each instance's own API results and through the reclamation requests for its files"])


REGISTRY = {"C04": c04, "C06": c06, "C12": c12, "C13": c13, "C17": c17}
