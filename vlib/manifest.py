"""Writes /verif/MANIFEST.json from one table (keeps it valid at all times)."""
import json
import os

from . import common as C

HOOK_COMMITS = ["1a663a7", "b348323", "04e4cdc", "80e0c7b", "d43a205"]

CHECKS = {
    "C01": ("model_checking", "TLC checks C01 as a theorem of the contract spec WalrusAPI (delivered = log[base+1..cur], append-only) over all calls/results within bounds; "
            "every execution of the real engine (committed regression corpus + seeded random operation sequences, fd/mmap x strict/alo, tiny and real geometry) "
            "is validated event by event by TLC against that contract.",
            "trace validation of real-engine executions against TLA+ contract WalrusAPI (TLC)", "7 C01"),
    "C02": ("model_checking", "Contract actions for peeks/offset reads leave all contract state unchanged and bind a peek to the next consuming read; real-engine executions "
            "with interleaved peeks and offset-addressed reads are validated by TLC, and a rejected execution is blamed on C02 only if its twin without the "
            "non-consuming calls is accepted.",
            "TLC trace validation against WalrusAPI + twin execution without non-consuming calls", "7 C02"),
    "C03": ("model_checking", "LegalBatch (cap, budget unless single entry, progress) is the enabling condition of the contract's BatchRead; TLC validates every batch-read result "
            "recorded from the real engine over budgets {0,1,..,unbounded} x cursor positions x entry sizes around 128 B and block capacity.",
            "TLC trace validation against WalrusAPI.LegalBatch", "7 C03"),
    "C15": ("model_checking", "After every call the harness records the reported entry count of every topic; TLC checks each against Len(log)-cur of the contract state.",
            "TLC trace validation of count observations against WalrusAPI", "7 C15"),
}

NOT_YET = {}

NA = {
    "C19": "Raft agreement lives in the vendored openraft + QUIC transport, which cannot be compiled or executed in this sandbox (tokio, quinn, openraft deps absent); "
           "a TLA+ Raft model with no binding to this code would decide nothing about it (DESIGN.md section 7, C19).",
}


def write(extra_na=None):
    checks = []
    for pid, (cat, text, tech, ref) in sorted(CHECKS.items()):
        checks.append({
            "property_id": pid,
            "quick_cmd": "./check %s --tier quick" % pid,
            "thorough_cmd": "./check %s --tier thorough" % pid,
            "evidence_file": "/verif/evidence/%s.json" % pid,
            "replay_cmd_template": "./check %s --replay {path}" % pid,
            "engine": "tlc+engine-driver",
            "level_claimed": {"category": cat, "text": text, "design_ref": "DESIGN.md section " + ref},
            "level_note": "Trusted: TLC, the contract spec as written, the harness's payload<->key mapping, the cfg(walrus_verif) hooks being inert; "
                          "verdicts cover the executions explored, the contract-level theorems are bounded (small constants).",
            "technique": tech,
        })
    na = dict(NA)
    props = [json.loads(l)["id"] for l in open(os.path.join(C.VERIF, "properties.jsonl"))]
    for p in props:
        if p not in CHECKS and p not in na:
            na[p] = (extra_na or {}).get(p, NOT_YET.get(p, "check not built yet in this round; see DESIGN.md section 11 (build order)"))
    m = {
        "version": 1,
        "setup_cmd": "./check setup",
        "hooks": {
            "guard": "walrus_verif",
            "enable": "RUSTFLAGS='--cfg walrus_verif [--cfg walrus_verif_tiny]' for the harness crates under /verif/harness (path dependency on /repo)",
            "baseline_off_cmd": "cd /repo && cargo test --workspace --no-fail-fast --offline",
            "source_commits": HOOK_COMMITS,
            "add_only": True,
        },
        "engines": [
            {"name": "tlc+engine-driver", "path": "/verif/check", "serves_properties": sorted(CHECKS.keys()),
             "kind_free_text": "TLA+ contract/design specs checked with TLC; Rust driver steps behaviours through the real engine; TLC validates recorded traces"},
        ],
        "checks": checks,
        "not_applicable": [{"property_id": p, "reason": r} for p, r in sorted(na.items())],
        "notes": "Entry point ./check <ID> --tier quick|thorough. Exit 0/1/2 = held / VIOLATION line / tool error. Known findings: findings/known_findings.jsonl.",
    }
    with open(os.path.join(C.VERIF, "MANIFEST.json"), "w") as f:
        json.dump(m, f, indent=1)


if __name__ == "__main__":
    write()
