"""Writes /verif/MANIFEST.json from one table (keeps it valid at all times)."""
import json
import os

from . import common as C

HOOK_COMMITS = ["1a663a7", "b348323", "04e4cdc", "80e0c7b", "d43a205"]  # + guarded hook lines inside fix commits 1c74aec (dirsync events), 44433eb/e6f06c9 keep the sched points

CHECKS = {
    "C01": ("model_checking", "TLC checks C01 as a theorem of the contract spec WalrusAPI (delivered = log[base+1..cur], append-only) over all calls/results within bounds; "
            "every execution of the real engine (committed regression corpus + seeded random operation sequences, fd/mmap x strict/alo, tiny and real geometry) "
            "is validated event by event by TLC against that contract.",
            "trace validation of real-engine executions against TLA+ contract WalrusAPI (TLC)", "7 C01"),
    "C02": ("model_checking", "Contract actions for peeks/offset reads leave all contract state unchanged and bind a peek to the next consuming read; real-engine executions "
            "with interleaved peeks and offset-addressed reads are validated by TLC, and a rejected execution is blamed on C02 only if its twin without the "
            "non-consuming calls is accepted.",
            "TLC trace validation against WalrusAPI + twin execution without non-consuming calls", "7 C02"),
    "C03": ("model_checking", "LegalBatch (cap, budget unless single entry, progress) is the enabling condition of the contract's BatchRead; TLC validates every batch-read result "
            "recorded from the real engine over budgets {0,1,..,unbounded} x cursor positions x entry sizes around 128 B and block capacity.",
            "TLC trace validation against WalrusAPI.LegalBatch", "7 C03"),
    "C15": ("model_checking", "After every call the harness records the reported entry count of every topic; TLC checks each against Len(log)-cur of the contract state.",
            "TLC trace validation of count observations against WalrusAPI", "7 C15"),
}

CHECKS.update({
    "C04": ("model_checking", "Contract: a failed append/batch leaves log, cursors and counts unchanged and a successful batch extends the log contiguously (TLC theorem PropAppendOnly/InvDelivered); "
            "real-engine executions with every rejection cause (over-cap, over-bytes, oversized entry, over-long topic, empty batch) and injected I/O failures (failed/short io_uring completions, failed block write, "
            "failed fsync, failed file creation) at varying positions, followed by appends, reads and reopens, are validated by TLC; blamed on C04 only if the twin execution without the failing calls is accepted.",
            "TLC trace validation against WalrusAPI + fault injection through cfg hooks + twin execution", "7 C04"),
    "C06": ("model_checking", "Contract Restart action (StrictlyAtOnce: identity; AtLeastOnce: resume within lb..cur, resolved lazily by the next read); real-engine histories with 1..n reopens in the same and in "
            "fresh processes, clock moved forward/0/backward, validated by TLC; blamed on C06 only if the twin history without reopens is accepted.",
            "TLC trace validation against WalrusAPI.Restart + twin execution without restarts", "7 C06"),
    "C12": ("model_checking", "Every reclamation request the engine raises (hook at the single send to the deletion channel) is checked by TLC against WalrusAPI.Reclaim: all acknowledged entries stored in that file "
            "are durably consumed; histories fill files in the tiny geometry with consuming reads, peeks, repeated empty polls and in-process reopens; thorough also waits for the real unlink and re-reads/reopens.",
            "TLC trace validation of reclaim events against WalrusAPI.Reclaim", "7 C12"),
    "C13": ("model_checking", "Topics of the contract are (instance, name) pairs with per-instance Restart; 2-3 live instances in one process with colliding block ids are driven with interleaved operations and "
            "every instance's results, counts, markers and reclamation requests are validated by TLC against its own contract state.",
            "TLC trace validation against per-instance WalrusAPI state", "7 C13"),
    "C16": ("model_checking", "Every behaviour is executed once per backend (fd/io_uring and mmap) in separate processes; the two API traces must be equal event by event (results, error kinds, entries, counts) and both are validated by TLC against WalrusAPI.",
            "differential execution fd vs mmap + TLC trace validation", "7 C16"),
    "C17": ("model_checking", "Contract: Append sets dirty, Mark sets the state, Restart preserves it; histories of appends/marks/is_clean/reopen with reopen 0, 1, 20 ms after the last call (same and new process) validated by TLC.",
            "TLC trace validation of marker observations against WalrusAPI", "7 C17"),
    "C18": ("model_checking", "TLC checks segment numbering, open-segment leader, cumulative offset = sum, totality of Apply and 'sealed count/leader never change' on every state of spec Metadata reachable by command "
            "sequences of depth <=5 (thorough 6) over 2 topics x 3 nodes x counts {0,1,2} + undecodable; every (state, command) pair is replayed on the real Metadata::apply (unmodified metadata.rs over a bincode shim) with returned "
            "value and full state compared; random long sequences are validated step by step by TLC (Trace_Metadata); u64-extreme sequences and arbitrary byte strings must not panic.",
            "TLC model checking of Metadata + exhaustive spec->impl transition replay + TLC trace validation", "7 C18"),
    "C24": ("model_checking", "TLC runs the design-level server loop of client.rs on every client stream of <=6 (thorough 8) symbols and checks it against the contract (one response per frame, in order, ERR classes, payload round trip); "
            "every stream plus seeded random long streams is instantiated as bytes and sent to the real start_client_listener (unmodified client.rs over a deterministic tokio shim with in-memory TCP); responses must equal the contract's list.",
            "TLC refinement check (ClientProto) + spec->impl replay of every enumerated stream class on the unmodified client.rs", "7 C24"),
    "C25": ("model_checking", "TLC checks Parse(Key(t,n)) = <<t,n>> and pairwise distinct keys for all topics of length <=4 (thorough 5) over {t,_,s,x,0,1} x segment numbers in spec WalKey; every enumerated tuple is compared with the real "
            "wal_key/parse_wal_key and the (topic, segment) the real forward_append derives; seeded random topics x u64 extremes are checked for round trip and distinctness.",
            "TLC exhaustive check of WalKey + spec->impl replay on the unmodified types.rs/internal.rs", "7 C25"),
})

CHECKS.update({
    "C07": ("fault_enumeration", "Every durable mutation of the caller thread is a numbered hook event; each generated workload is crashed (process _exit) before every event k in 1..N+1, "
            "with all completion subsets of io_uring batches up to 4 entries; a fresh process reopens and drains; TLC validates (acknowledged events, Crash(inflight), post-recovery reads) "
            "against WalrusAPI.Crash: recovery succeeds, every acknowledged entry is there in order, followed by at most entries of the operation in flight.",
            "crash-point enumeration through I/O hooks + TLC trace validation against WalrusAPI.Crash", "7 C07"),
    "C08": ("fault_enumeration", "Same crash runs, validated a second time with the contract's all-or-nothing reading of an in-flight batch; a crash point counts against C08 iff its trace is accepted "
            "with 'any selection of the batch may survive' and rejected with 'all or nothing'.",
            "crash-point + io_uring completion-subset enumeration, TLC validation with BatchAtomic=TRUE vs FALSE", "7 C08"),
    "C09": ("fault_enumeration", "Same crash runs; the contract's Crash action leaves the consumer position open in [cur - slack, cur + in-flight] (StrictlyAtOnce) or [lb, cur] (AtLeastOnce, lb advanced by read_next every "
            "persist_every reads) and the first post-recovery consuming read must resolve it inside that range: nothing consumed is redelivered (strict), nothing unconsumed is skipped.",
            "crash-point enumeration + TLC trace validation of the post-recovery read position", "7 C09"),
    "C14": ("model_checking", "TLC enumerates every key of length <=4 over 8 character classes and checks StrictlyInside on the transcription of sanitize_namespace + path push (spec Namespace; the pre-fix variant is kept as a "
            "vacuity guard and must be violated); every enumerated key (quick: all of length <=3 + a seeded sample of length 4) is instantiated and passed to the real constructors; the instance root and listings of the data dir "
            "and its parent are checked.",
            "TLC exhaustive check of Namespace + spec->impl replay on the real constructors", "7 C14"),
    "C22": ("model_checking", "TLC checks the DataPlane design (2-3 nodes, <=3 PUT + <=4 GET, threshold 1-2, one pc per .await) against the contract with each code deviation as a switch (as-code configs yield the counterexamples, "
            "deviation-free configs hold); every execution of the real NodeController/bucket/Metadata/monitor/engine code on the deterministic cluster simulation (TLC counterexamples, TLC-generated behaviours, seeded random/PCT "
            "schedules, avoidance-guarded corpora) is decided by TLC as linearizability of the client call/ret history to a FIFO queue.",
            "TLA+ design+contract DataPlane (TLC), schedule replay on the shim-world simulation, TLC trace validation (linearizability)", "7 C22"),
    "C23": ("model_checking", "Same executions as C22; TLC checks every data-plane write event against the writer's applied metadata at that step (no write into a segment whose sealing the node has applied, none into another node's segment).",
            "TLC trace validation of write/apply events from the shim-world simulation against DataPlane", "7 C23"),
})

CHECKS.update({
    "C11": ("exploration", "Semantic half only: TLC enumerates the damage cases of spec WalrusDamage (class x locus over WAL units, entry headers byte by byte, payloads, truncation points, index/marker files, stray files); "
            "each applicable case is applied to copies of directories produced by the real engine (3 workloads x fd/mmap) and opened in a fresh process that drains every topic; oracle = process outcome (no panic, abort, signal, hang) "
            "and the contract clause 'every returned payload was appended to that topic' checked by TLC on the recorded reads. Silent undefined behaviour is outside this technique.",
            "TLC-enumerated damage cases (WalrusDamage) + process-outcome oracle + TLC trace validation (no foreign payload)", "7 C11"),
})

CHECKS.update({
    "C10": ("fault_enumeration", "SyncEach workloads are run with the I/O hook recording every durable mutation with its bytes; for every trace prefix ending at an operation boundary (thorough: every prefix) and for admissible loss sets "
            "(subsets of unsynced directory operations and file writes) the directory is reconstructed exactly as the statement's power-loss model leaves it and opened by a fresh process; TLC validates acknowledged events, Crash(inflight) "
            "and the post-recovery reads against WalrusAPI (acknowledged appends present; StrictlyAtOnce consumption not forgotten).",
            "I/O-trace power-loss reconstruction + TLC trace validation against WalrusAPI.Crash", "7 C10"),
    "C20": ("model_checking", "Metadata (Restore(Snapshot(s)) = s in every reachable state of the bounded command space) and RaftSM (2 nodes, <=4 (5) entries, build/install/damaged-install at every point: every node's application state "
            "equals the state determined by its applied prefix) checked by TLC; ~13.9k (thorough ~122k) executions on the real Metadata::snapshot/restore and the real storage.rs adapter (apply/build_snapshot/install_snapshot) with the real "
            "Metadata or KvStateMachine, full state compared after every operation; defective-adapter models kept as vacuity mutants.",
            "explicit TLA+ (Metadata, RaftSM; TLC) + spec->impl case replay + state comparison through the shim world", "7 C20"),
    "C21": ("model_checking", "All histories of <=4 (thorough 5) store operations with <=2 (3) reopens checked by TLC on the design layer of WalLogStore/WriteAheadLog/peer-address records against the contract LogStore (the code's own design, "
            "consuming replay with a persisted cursor, is rejected with a 3-operation counterexample = known finding OCT-C21-CONSUMED-REPLAY); ~900 (thorough ~10.7k) TLC-generated and seeded random histories incl. clean/killed, same/new-process "
            "and mid-call-kill reopens executed on the real store, every trace validated by TLC against the contract; histories outside the finding's trigger must all conform.",
            "explicit TLA+ contract + design layer (TLC); spec->impl history replay; impl->spec ndjson trace validation; known-finding matcher + avoidance guard", "7 C21"),
})

CHECKS.update({
    "C05": ("model_checking", "2-4 real threads (append, batch_append, read_next, batch_read on a shared topic, blocks holding 2-3 entries) are gated at the cfg(walrus_verif) scheduling points placed at the lock release/re-acquire sites; "
            "a seeded controller decides which thread runs; TLC decides linearizability of every recorded call/ret history plus quiescent drain against the contract WalrusAPI (every acknowledged entry returned exactly once, producer order, batches contiguous).",
            "controlled thread schedules through sched_point hooks + TLC linearizability check (Trace_WalrusConc)", "7 C05"),
})

DIST_NOTE = ("Shim world: the distributed-walrus/octopii files are compiled unmodified via #[path] against local shim crates (tokio: deterministic executor, bincode: 1.3 layout, "
             "octopii/openraft: traits and data types only); behaviour that depends on the real crates is outside what is explored.")

NOT_YET = {}

NA = {
    "C19": "Raft agreement lives in the vendored openraft + QUIC transport, which cannot be compiled or executed in this sandbox (tokio, quinn, openraft deps absent); "
           "a TLA+ Raft model with no binding to this code would decide nothing about it (DESIGN.md section 7, C19).",
}


def write(extra_na=None):
    checks = []
    for pid, (cat, text, tech, ref) in sorted(CHECKS.items()):
        checks.append({
            "property_id": pid,
            "quick_cmd": "./check %s --tier quick" % pid,
            "thorough_cmd": "./check %s --tier thorough" % pid,
            "evidence_file": "/verif/evidence/%s.json" % pid,
            "replay_cmd_template": "./check %s --replay {path}" % pid,
            "engine": "tlc+engine-driver",
            "level_claimed": {"category": cat, "text": text, "design_ref": "DESIGN.md section " + ref},
            "level_note": (DIST_NOTE if pid in ("C18", "C20", "C21", "C22", "C23", "C24", "C25") else
                           "Trusted: TLC, the contract spec as written, the harness's payload<->key mapping, the cfg(walrus_verif) hooks being inert; "
                           "verdicts cover the executions explored, the contract-level theorems are bounded (small constants)."),
            "technique": tech,
        })
    na = dict(NA)
    props = [json.loads(l)["id"] for l in open(os.path.join(C.VERIF, "properties.jsonl"))]
    for p in props:
        if p not in CHECKS and p not in na:
            na[p] = (extra_na or {}).get(p, NOT_YET.get(p, "check not built yet in this round; see DESIGN.md section 11 (build order)"))
    m = {
        "version": 1,
        "setup_cmd": "./check setup",
        "hooks": {
            "guard": "walrus_verif",
            "enable": "RUSTFLAGS='--cfg walrus_verif [--cfg walrus_verif_tiny]' for the harness crates under /verif/harness (path dependency on /repo)",
            "baseline_off_cmd": "cd /repo && cargo test --workspace --no-fail-fast --offline",
            "source_commits": HOOK_COMMITS,
            "add_only": True,
        },
        "engines": [
            {"name": "tlc+engine-driver", "path": "/verif/check", "serves_properties": sorted(CHECKS.keys()),
             "kind_free_text": "TLA+ contract/design specs checked with TLC; Rust driver steps behaviours through the real engine; TLC validates recorded traces"},
        ],
        "checks": checks,
        "not_applicable": [{"property_id": p, "reason": r} for p, r in sorted(na.items())],
        "notes": "Entry point ./check <ID> --tier quick|thorough. Exit 0/1/2 = held / VIOLATION line / tool error. Known findings: findings/known_findings.jsonl.",
    }
    with open(os.path.join(C.VERIF, "MANIFEST.json"), "w") as f:
        json.dump(m, f, indent=1)


if __name__ == "__main__":
    write()
