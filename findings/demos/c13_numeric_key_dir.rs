//! Demonstration: an unkeyed instance and a keyed instance whose key is all digits share a data directory.
//! The keyed instance's root is a subdirectory with an all-digit name; `create_new_file` took it for the newest
//! WAL file name. With the key u64::MAX every later file name of the unkeyed instance collided with that
//! directory and the instance could no longer be opened (`IsADirectory`). Fixed by "fix: only regular files ...".
use std::time::{SystemTime, UNIX_EPOCH};
use walrus_rust::Walrus;

#[test]
fn numeric_key_does_not_break_the_unkeyed_instance() {
    let nanos = SystemTime::now().duration_since(UNIX_EPOCH).unwrap().as_nanos();
    let dir = std::env::temp_dir().join(format!("c13-numkey-{}-{}", std::process::id(), nanos));
    std::fs::create_dir_all(&dir).unwrap();
    let plain = Walrus::builder().data_dir(dir.clone()).build().unwrap();
    plain.append_for_topic("t", b"one").unwrap();
    let keyed = Walrus::builder().data_dir(dir.clone()).key("18446744073709551615").build().unwrap();
    keyed.append_for_topic("t", b"other").unwrap();
    drop(plain);
    let plain = Walrus::builder().data_dir(dir.clone()).build();
    assert!(plain.is_ok(), "reopening the unkeyed instance failed: {:?}", plain.err());
    let plain = plain.unwrap();
    assert_eq!(plain.read_next("t", true).unwrap().map(|e| e.data), Some(b"one".to_vec()));
    drop(plain);
    drop(keyed);
    let _ = std::fs::remove_dir_all(&dir);
}
