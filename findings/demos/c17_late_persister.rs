//! Deterministic demonstration (needs --cfg walrus_verif): the marker persister thread of an instance that was
//! already dropped writes the marker file again and clobbers what the successor instance persisted.
#![cfg(walrus_verif)]
use std::sync::atomic::{AtomicBool, Ordering};
use std::time::{Duration, SystemTime, UNIX_EPOCH};
use walrus_rust::Walrus;

static HOLD: AtomicBool = AtomicBool::new(false);
static PARKED: AtomicBool = AtomicBool::new(false);

fn hook(label: &'static str) {
    // only the first persister that arrives (instance A's) is held
    if label == "tc_before_persist" && HOLD.load(Ordering::SeqCst) && !PARKED.swap(true, Ordering::SeqCst) {
        while HOLD.load(Ordering::SeqCst) {
            std::thread::sleep(Duration::from_micros(200));
        }
    }
}

#[test]
fn late_persister_of_dropped_instance() {
    let nanos = SystemTime::now().duration_since(UNIX_EPOCH).unwrap().as_nanos();
    let dir = std::env::temp_dir().join(format!("c17-demo-{}-{}", std::process::id(), nanos));
    std::fs::create_dir_all(&dir).unwrap();
    walrus_rust::wal::verif::set_sched_hook(Some(Box::new(hook)));
    // instance A: dirty -> clean; its persister is parked after it took its snapshot
    let a = Walrus::builder().data_dir(dir.clone()).build().unwrap();
    a.append_for_topic("t", b"one").unwrap();
    std::thread::sleep(Duration::from_millis(30)); // first marker (dirty) written
    HOLD.store(true, Ordering::SeqCst);
    a.mark_topic_clean("t");
    while !PARKED.load(Ordering::SeqCst) {
        std::thread::sleep(Duration::from_millis(1));
    }
    drop(a); // clean shutdown: flush writes "clean"
    // instance B: append -> dirty, clean shutdown writes "dirty"
    let b = Walrus::builder().data_dir(dir.clone()).build().unwrap();
    assert!(b.topic_is_clean("t"));
    b.append_for_topic("t", b"two").unwrap();
    assert!(!b.topic_is_clean("t"));
    drop(b);
    // now A's persister (still alive: it held the last strong reference) is released
    let mf = dir.join("topic_clean_index.db");
    eprintln!("before release: {:?} {:?}", std::fs::read(&mf).map(|b| b.iter().map(|x| format!("{:02x}", x)).collect::<String>()), std::fs::metadata(&mf).and_then(|m| m.modified()));
    eprintln!("files: {:?}", std::fs::read_dir(&dir).unwrap().flatten().map(|e| e.file_name()).collect::<Vec<_>>());
    HOLD.store(false, Ordering::SeqCst);
    std::thread::sleep(Duration::from_millis(100));
    eprintln!("after release: {:?} {:?}", std::fs::read(&mf).map(|b| b.iter().map(|x| format!("{:02x}", x)).collect::<String>()), std::fs::metadata(&mf).and_then(|m| m.modified()));
    let c = Walrus::builder().data_dir(dir.clone()).build().unwrap();
    let clean = c.topic_is_clean("t");
    drop(c);
    walrus_rust::wal::verif::set_sched_hook(None);
    let _ = std::fs::remove_dir_all(&dir);
    assert!(!clean, "topic reported clean after an append that returned and a clean shutdown");
}
